(* C03 at the API level of the model: edit_distance_join (`j_entry c = EJoin "EDIT_DISTANCE"`)
   is total, sound (the score is the Levenshtein distance, `0.0` for equal strings, each key
   pair once), complete for pairs that share a q-gram (under the q-gram count filter `cf`,
   which q-gram bags satisfy), and lists exactly those pairs.  C04 under EDIT_DISTANCE for
   filter_tables of SizeFilter / PrefixFilter (PositionFilter: ApiFilterEditPos.v).
   Integers and lists only, axiom-free.                                                     *)
From Coq Require Import ZArith Bool List String Lia SpecFloat.
From SSJ Require Import F64 PyNum HelperGen TokenOrdering Measures Filters Lev Qgram Joins Api JoinSpec
                        MetaSpec OrderingFacts LevFacts QgramFacts FilterRefine EditArith EditJoin
                        EditFilters CoreLiftBase CoreLift ApiLift ApiFilterBase ApiFilterTables.
Import ListNotations.
Open Scope string_scope.
Open Scope list_scope.
Open Scope Z_scope.

(* ------------------------------------------------------------------ pair level *)
Lemma ed_dist_rowval l r : JoinSpec.ed_dist l r = EditJoin.ed_dist (rowval l) (rowval r).
Proof. reflexivity. Qed.

Lemma score_same_ed l r : score_same (JoinSpec.ed_dist l r) (JoinSpec.ed_dist l r) = true.
Proof.
  unfold JoinSpec.ed_dist. destruct (list_eqbZ (str_of l) (str_of r)); [reflexivity|].
  cbn. rewrite Z.compare_refl. reflexivity.
Qed.

Lemma ed_pair_eq q tau op all x y : 0 <= tau -> 1 <= q ->
  ed_pair q tau op (ed_row all x) (ed_row all y) =
  Some (if ed_ok q tau op all x y then [EditJoin.ed_dist x y] else []).
Proof.
  intros Ht Hq. unfold ed_pair, ed_row. cbn [fst snd]. change (ed_params q tau) with (EditArith.edp q tau).
  rewrite prefix_cand_ed by assumption.
  unfold ed_ok, ed_pref, ed_lenf, EditJoin.ed_dist, ed_dist_of.
  destruct (share _ _); [|reflexivity]. cbn [andb].
  destruct ((_ <=? _) && (_ <=? _)); [|reflexivity]. cbn [andb].
  destruct (cmp_op _ _ _); reflexivity.
Qed.

Lemma ed_ok_char q tau op all x y : 0 <= tau -> 1 <= q -> ed_op op -> cf q x y ->
  (forall w, In w (snd x) -> In w all) -> (forall w, In w (snd y) -> In w all) ->
  ed_ok q tau op all x y = cmp_op op (EditJoin.ed_dist x y) (PInt tau) && share (snd x) (snd y).
Proof.
  intros Ht Hq Hop Hcf Hx Hy.
  destruct (cmp_op op (EditJoin.ed_dist x y) (PInt tau)) eqn:Hc.
  2:{ unfold ed_ok. rewrite Hc, andb_false_r. reflexivity. }
  cbn [andb]. pose proof (ed_dist_le op tau x y Hop Ht Hc) as Hlev.
  unfold ed_ok. rewrite Hc, (ed_lenf_ok tau x y) by lia. rewrite !andb_true_r.
  destruct (share (snd x) (snd y)) eqn:Hsh.
  - apply ed_pref_complete; try assumption. unfold cf in Hcf.
    assert (q * lev (fst x) (fst y) <= q * tau) by (apply Z.mul_le_mono_nonneg_l; lia). lia.
  - destruct (ed_pref q tau all x y) eqn:Ep; [|reflexivity].
    apply ed_pref_share in Ep. congruence.
Qed.

(* ------------------------------------------------------------------ the join *)
Definition valid_ed_case (c : jcase) (tau : Z) : Prop :=
  j_entry c = EJoin "EDIT_DISTANCE" /\ 1 <= j_q c /\
  py_int (py_floor (j_t c)) = PInt tau /\ 0 <= tau /\ ed_op (j_op c) /\ keys_ok c /\ size_ok c.

(* the q-gram count filter on every pair of present rows (needed for completeness only) *)
Definition cf_rows (c : jcase) : Prop :=
  forall l r, In l (j_L c) -> In r (j_R c) -> present l = true -> present r = true ->
    cf (j_q c) (rowval l) (rowval r).

Lemma valid_ed_tau c tau : valid_ed_case c tau -> ed_tau (j_t c) = tau.
Proof. intros [_ [_ [H _]]]. unfold ed_tau. rewrite H. reflexivity. Qed.

Lemma ed_core_pf c tau all l r : j_entry c = EJoin "EDIT_DISTANCE" ->
  py_int (py_floor (j_t c)) = PInt tau ->
  core_pf c all (rowval l) (rowval r) =
  ed_pair (j_q c) tau (j_op c) (ed_row all (rowval l)) (ed_row all (rowval r)).
Proof.
  intros He Ht. unfold core_pf. rewrite He.
  change (String.eqb "EDIT_DISTANCE" "OVERLAP") with false.
  change (String.eqb "EDIT_DISTANCE" "OVERLAP_COEFFICIENT") with false.
  change (String.eqb "EDIT_DISTANCE" "EDIT_DISTANCE") with true. cbv iota. rewrite Ht. reflexivity.
Qed.

Section EdJoinApi.
  Hypothesis Hpart : part_hyp.
  Variable c : jcase.
  Variable tau : Z.
  Hypothesis Hv : valid_ed_case c tau.
  Local Notation Lp := (filter present (j_L c)).
  Local Notation Rp := (filter present (j_R c)).

  Let He : j_entry c = EJoin "EDIT_DISTANCE". Proof. exact (proj1 Hv). Qed.
  Let Hq : 1 <= j_q c. Proof. exact (proj1 (proj2 Hv)). Qed.
  Let Hfl : py_int (py_floor (j_t c)) = PInt tau. Proof. exact (proj1 (proj2 (proj2 Hv))). Qed.
  Let Ht : 0 <= tau. Proof. exact (proj1 (proj2 (proj2 (proj2 Hv)))). Qed.
  Let Hop : ed_op (j_op c). Proof. exact (proj1 (proj2 (proj2 (proj2 (proj2 Hv))))). Qed.
  Let Hk : keys_ok c. Proof. exact (proj1 (proj2 (proj2 (proj2 (proj2 (proj2 Hv)))))). Qed.
  Let Hsz : size_ok c. Proof. exact (proj2 (proj2 (proj2 (proj2 (proj2 (proj2 Hv)))))). Qed.

  Lemma ed_pf Rc l r :
    core_pf c (all_of Lp Rc) (rowval l) (rowval r) =
    Some (if ed_ok (j_q c) tau (j_op c) (all_of Lp Rc) (rowval l) (rowval r)
          then [JoinSpec.ed_dist l r] else []).
  Proof. rewrite (ed_core_pf c tau) by assumption. rewrite ed_pair_eq by assumption. reflexivity. Qed.

  Theorem ed_join_total : exists out, api_join c = Some out.
  Proof.
    apply (api_total Hpart c Hsz).
    - unfold core_ok. rewrite He.
      change (String.eqb "EDIT_DISTANCE" "OVERLAP") with false.
      change (String.eqb "EDIT_DISTANCE" "OVERLAP_COEFFICIENT") with false.
      change (String.eqb "EDIT_DISTANCE" "EDIT_DISTANCE") with true. cbv iota. rewrite Hfl. reflexivity.
    - intros Rc l r _ _ _. rewrite ed_pf. discriminate.
  Qed.

  (* the reported distance is exact and satisfies the comparison; each key pair once *)
  Theorem ed_join_sound : forall out, api_join c = Some out -> sound_spec c out = true.
  Proof.
    intros out H. apply (sound_spec_lift Hpart c Hsz Hk out H).
    intros Rc l r lst s0 Hi Hl Hr Epf Hs. rewrite ed_pf in Epf. injection Epf as <-.
    apply In_if_single in Hs. destruct Hs as [Hok ->].
    unfold sound_pres. rewrite He. change (String.eqb "EDIT_DISTANCE" "EDIT_DISTANCE") with true.
    cbv iota. rewrite (valid_ed_tau c tau Hv).
    unfold ed_ok in Hok. apply andb_true_iff in Hok. destruct Hok as [_ Hc].
    rewrite ed_dist_rowval, Hc. cbn [andb]. unfold rep_score.
    destruct (j_with_score c); [apply score_same_ed|reflexivity].
  Qed.

  Theorem ed_join_missing : forall out, api_join c = Some out -> missing_spec c out = true.
  Proof. intros out H. apply (missing_spec_holds Hpart c Hsz Hk out H). Qed.

  Theorem ed_join_empty : forall out, api_join c = Some out -> empty_spec c out = true.
  Proof.
    intros out H. apply (empty_spec_lift Hpart c Hsz Hk out H).
    intros Rc l r lst _ _ _ _. split.
    - intros _ b Eb. unfold empty_expected in Eb. rewrite He in Eb. discriminate.
    - intros _ Ho. unfold is_set_join in Ho. rewrite He, andb_false_r in Ho. discriminate.
  Qed.

  Hypothesis Hcf : cf_rows c.

  Lemma ed_ok_rows Rc l r : incl Rc Rp -> In l Lp -> In r Rc ->
    ed_ok (j_q c) tau (j_op c) (all_of Lp Rc) (rowval l) (rowval r) =
    cmp_op (j_op c) (JoinSpec.ed_dist l r) (PInt tau) && share (toks_of l) (toks_of r).
  Proof.
    intros Hi Hl Hr. pose proof (Hi r Hr) as Hrp. pose proof Hl as Hl'. apply filter_In in Hl', Hrp.
    apply ed_ok_char; try assumption.
    - apply Hcf; tauto.
    - apply (toks_all_l Lp Rc l Hl).
    - apply (toks_all_r Lp Rc r Hr).
  Qed.

  (* C03: every pair within the threshold whose bags share a q-gram is listed *)
  Theorem ed_join_complete : forall out, api_join c = Some out -> complete_spec c out = true.
  Proof.
    intros out H. apply (complete_spec_lift Hpart c Hsz Hk out H).
    intros Rc l r lst Hi Hl Hr Hn Epf. rewrite ed_pf in Epf. injection Epf as <-.
    rewrite (ed_ok_rows Rc l r Hi Hl Hr).
    unfold need_pair in Hn. rewrite He in Hn. change (String.eqb "EDIT_DISTANCE" "EDIT_DISTANCE") with true in Hn.
    cbv iota zeta in Hn. rewrite (valid_ed_tau c tau Hv) in Hn. rewrite Hn. discriminate.
  Qed.

  (* ... and no other pair of present rows: the result is characterised without the token order *)
  Theorem ed_join_exact : forall out, api_join c = Some out ->
    forall l r, In l (j_L c) -> In r (j_R c) -> present l = true -> present r = true ->
      has_pair (fst l) (fst r) out =
      cmp_op (j_op c) (JoinSpec.ed_dist l r) (PInt tau) && share (toks_of l) (toks_of r).
  Proof.
    intros out H l r Hl Hr Pl Pr.
    destruct (pair_chunk Hpart c Hsz Hk out l r H Hl Hr Pl Pr) as [Rc [lst [Hi [Hrc [Epf ->]]]]].
    rewrite ed_pf in Epf. injection Epf as <-.
    rewrite (ed_ok_rows Rc l r Hi) by (try apply filter_In; auto).
    destruct (cmp_op _ _ _ && share _ _); reflexivity.
  Qed.
End EdJoinApi.

(* rows whose bag is the injectively interned q-gram bag of their string satisfy `cf` *)
Definition qgram_rows (tk : qgram_tok) (f : Z -> Z) (c : jcase) : Prop :=
  (forall l, In l (j_L c) -> present l = true -> qrow_ok tk f (rowval l)) /\
  (forall r, In r (j_R c) -> present r = true -> qrow_ok tk f (rowval r)).

Corollary qgram_rows_cf tk f c : (forall a b, f a = f b -> a = b) -> j_q c = qq tk -> 1 <= qq tk ->
  qgram_rows tk f c -> cf_rows c.
Proof.
  intros Hinj Eq Hq [HL HR] l r Hl Hr Pl Pr. rewrite Eq.
  apply (qrow_cf tk f); [exact Hinj|exact Hq|apply HL; assumption|apply HR; assumption].
Qed.

Corollary ed_join_complete_qgram
  (Hpart : part_hyp) tk f c tau :
  (forall a b, f a = f b -> a = b) -> j_q c = qq tk -> valid_ed_case c tau -> qgram_rows tk f c ->
  forall out, api_join c = Some out -> complete_spec c out = true.
Proof.
  intros Hinj Eq Hv Hrows. apply (ed_join_complete Hpart c tau Hv).
  apply (qgram_rows_cf tk f c Hinj Eq); [|exact Hrows]. rewrite <- Eq. exact (proj1 (proj2 Hv)).
Qed.

(* ------------------------------------------------------------------ the filters under EDIT_DISTANCE *)
Definition edf_rows (c : jcase) : Prop :=
  forall l r, In l (j_L c) -> In r (j_R c) -> present l = true -> present r = true ->
    cf (j_q c) (rowval l) (rowval r) /\
    Z.abs (len (toks_of l) - len (toks_of r)) <= lev (str_of l) (str_of r).

Definition valid_edf_case (c : jcase) (k : fkind) (tau : Z) : Prop :=
  j_entry c = EFilter k "EDIT_DISTANCE" /\ k3 k /\ j_t c = PInt tau /\ 0 <= tau /\ 1 <= j_q c /\
  keys_ok c /\ size_ok c.

Lemma qgram_rows_edf tk f c : (forall a b, f a = f b -> a = b) -> j_q c = qq tk -> 1 <= qq tk ->
  qgram_rows tk f c -> edf_rows c.
Proof.
  intros Hinj Eq Hq Hrows l r Hl Hr Pl Pr. split.
  - apply (qgram_rows_cf tk f c Hinj Eq Hq Hrows); assumption.
  - destruct Hrows as [HL HR]. pose proof (HL l Hl Pl) as El. pose proof (HR r Hr Pr) as Er.
    unfold qrow_ok in El, Er. cbn [rowval fst snd] in El, Er. rewrite El, Er.
    unfold len. rewrite !map_length. apply (qgram_bag_len_diff tk _ _ Hq).
Qed.

Lemma ft_handle_empty_ed q tau ae : ft_handle_empty (EditArith.edp q tau) ae = false.
Proof. unfold ft_handle_empty. cbn [EditArith.edp fm]. rewrite andb_false_r. reflexivity. Qed.

Lemma slices_ok_ed q tau : 0 <= tau -> 1 <= q -> slices_ok (EditArith.edp q tau).
Proof. intros Ht Hq n l Hn. rewrite g_pl_ed by lia. unfold slice0. eexists. reflexivity. Qed.

Lemma filter_cand_total_ed k q tau X Y : k3 k -> 0 <= tau -> 1 <= q ->
  filter_cand k (EditArith.edp q tau) X Y <> None.
Proof.
  intros Hk Ht Hq.
  assert (HX : 0 <= len X) by (unfold len; lia). assert (HY : 0 <= len Y) by (unfold len; lia).
  destruct Hk as [-> | [-> | ->]]; unfold filter_cand; [discriminate| |].
  - rewrite prefix_cand_ed by assumption. discriminate.
  - unfold pos_cand. rewrite !g_pl_ed by assumption. unfold slice0. discriminate.
Qed.

(* the full C04 statement for the three filters under EDIT_DISTANCE
   (proved for all three in ApiFilterEditPos.v: edf_complete) *)
Definition edf_complete_stmt (k : fkind) : Prop :=
  part_hyp ->
  forall c tau, valid_edf_case c k tau -> edf_rows c ->
  forall out, api_join c = Some out -> complete_spec c out = true.

Section EdFilterApi.
  Hypothesis Hpart : part_hyp.
  Variable c : jcase.
  Variable k : fkind.
  Variable tau : Z.
  Hypothesis Hv : valid_edf_case c k tau.
  Local Notation Lp := (filter present (j_L c)).
  Local Notation Rp := (filter present (j_R c)).

  Let He : j_entry c = EFilter k "EDIT_DISTANCE". Proof. exact (proj1 Hv). Qed.
  Let Hk3 : k3 k. Proof. exact (proj1 (proj2 Hv)). Qed.
  Let Htt : j_t c = PInt tau. Proof. exact (proj1 (proj2 (proj2 Hv))). Qed.
  Let Ht : 0 <= tau. Proof. exact (proj1 (proj2 (proj2 (proj2 Hv)))). Qed.
  Let Hq : 1 <= j_q c. Proof. exact (proj1 (proj2 (proj2 (proj2 (proj2 Hv))))). Qed.
  Let Hk : keys_ok c. Proof. exact (proj1 (proj2 (proj2 (proj2 (proj2 (proj2 Hv)))))). Qed.
  Let Hsz : size_ok c. Proof. exact (proj2 (proj2 (proj2 (proj2 (proj2 (proj2 Hv)))))). Qed.

  Lemma jparams_edp : jparams c "EDIT_DISTANCE" = EditArith.edp (j_q c) tau.
  Proof. unfold jparams, EditArith.edp. rewrite Htt. reflexivity. Qed.

  Lemma edf_pf Rc l r :
    core_pf c (all_of Lp Rc) (rowval l) (rowval r) =
    option_map (fun b : bool => if b then [PNone] else [])
      (filter_cand k (EditArith.edp (j_q c) tau) (order (all_of Lp Rc) (toks_of l))
                   (order (all_of Lp Rc) (toks_of r))).
  Proof.
    rewrite (ft_core_pf c k "EDIT_DISTANCE") by exact He. rewrite jparams_edp. unfold ft_pair.
    rewrite ft_handle_empty_ed. reflexivity.
  Qed.

  Theorem edf_total : exists out, api_join c = Some out.
  Proof.
    apply (api_total Hpart c Hsz); [unfold core_ok; rewrite He; reflexivity|].
    intros Rc l r _ _ _. rewrite edf_pf.
    destruct (filter_cand k _ _ _) as [b|] eqn:E; [discriminate|].
    exfalso. revert E. apply filter_cand_total_ed; assumption.
  Qed.

  Theorem edf_sound : forall out, api_join c = Some out -> sound_spec c out = true.
  Proof. apply (filter_sound Hpart c k "EDIT_DISTANCE" He Hk3 Hsz Hk). Qed.
  Theorem edf_missing : forall out, api_join c = Some out -> missing_spec c out = true.
  Proof. apply (filter_missing Hpart c Hsz Hk). Qed.
  Theorem edf_empty : forall out, api_join c = Some out -> empty_spec c out = true.
  Proof. apply (filter_empty Hpart c k "EDIT_DISTANCE" He Hk3 Hsz Hk). Qed.

  Hypothesis Hrows : edf_rows c.

  (* C04 under EDIT_DISTANCE for the size and the prefix filter *)
  Theorem edf_complete_partial : k = KSize \/ k = KPrefix ->
    forall out, api_join c = Some out -> complete_spec c out = true.
  Proof.
    intros Hk2 out H. apply (complete_spec_lift Hpart c Hsz Hk out H).
    intros Rc l r lst Hi Hl Hr Hn Epf. rewrite edf_pf in Epf.
    unfold need_pair in Hn. rewrite He in Hn.
    change (String.eqb "EDIT_DISTANCE" "EDIT_DISTANCE") with true in Hn. cbv iota zeta in Hn.
    apply andb_true_iff in Hn. destruct Hn as [Hc Hsh]. rewrite Htt, ed_dist_rowval in Hc.
    pose proof (ed_dist_le "<=" tau (rowval l) (rowval r) (or_introl eq_refl) Ht Hc) as Hlev.
    cbn [rowval fst] in Hlev.
    pose proof (Hi r Hr) as Hrp. pose proof Hl as Hl'. apply filter_In in Hl', Hrp.
    destruct (Hrows l r (proj1 Hl') (proj1 Hrp) (proj2 Hl') (proj2 Hrp)) as [Hcf Hlen].
    set (all := all_of Lp Rc) in *.
    assert (Hla : forall w, In w (toks_of l) -> In w all) by apply (toks_all_l Lp Rc l Hl).
    assert (Hra : forall w, In w (toks_of r) -> In w all) by apply (toks_all_r Lp Rc r Hr).
    assert (Ec : filter_cand k (EditArith.edp (j_q c) tau) (order all (toks_of l)) (order all (toks_of r))
                 = Some true).
    { destruct Hk2 as [-> | ->]; unfold filter_cand.
      - rewrite !EditJoin.len_order by assumption.
        rewrite (size_cand_ed (j_q c) tau _ _ Ht).
        destruct (share_len _ _ Hsh) as [H1 _].
        destruct (Z.ltb_spec 0 (len (toks_of l))); [|lia].
        destruct (Z.leb_spec (Z.abs (len (toks_of r) - len (toks_of l))) tau); [reflexivity|lia].
      - rewrite prefix_cand_ed by assumption. f_equal.
        apply (ed_pref_complete (j_q c) tau all (rowval l) (rowval r)); try assumption.
        unfold cf in Hcf. cbn [rowval fst snd] in *.
        assert (j_q c * lev (str_of l) (str_of r) <= j_q c * tau) by (apply Z.mul_le_mono_nonneg_l; lia).
        lia. }
    rewrite Ec in Epf. cbn [option_map] in Epf. injection Epf as <-. discriminate.
  Qed.
End EdFilterApi.

(* ------------------------------------------------------------------ examples *)
Definition tkq : qgram_tok := {| qq := 2; qpad := true; qpre := 35; qsuf := 36 |}.
Definition mkrow (k : Z) (s : list Z) : row := (k, Some (s, qgram_bag tkq s)).
Definition ed_L : list row := [mkrow 1 [97; 98; 99]; (2, None); mkrow 3 [120; 121; 122]; mkrow 4 [97]].
Definition ed_R : list row := [mkrow 7 [97; 98; 100]; mkrow 8 [97; 98; 99]; (9, None); mkrow 6 [98]].

Definition edj_ex : jcase :=
  {| j_entry := EJoin "EDIT_DISTANCE"; j_t := PFloat (mkF 3 (-1)); j_q := 2; j_op := "<=";
     j_allow_empty := true; j_allow_missing := true; j_with_score := true; j_njobs := 2; j_cpus := 4;
     j_L := ed_L; j_R := ed_R |}.

Example edj_ex_valid : valid_ed_case edj_ex 1 /\ qgram_rows tkq (fun z => z) edj_ex.
Proof.
  split.
  - split; [reflexivity|]. split; [simpl; lia|]. split; [vm_compute; reflexivity|]. split; [lia|].
    split; [left; reflexivity|]. split; [split; nodup_c|vm_compute; reflexivity].
  - split; intros x Hx Px; simpl in Hx;
      repeat (destruct Hx as [<-|Hx]; [try discriminate Px; unfold qrow_ok; rewrite map_id; reflexivity|]);
      destruct Hx.
Qed.

Example edj_ex_check :
  match api_join edj_ex with
  | Some out => complete_spec edj_ex out && sound_spec edj_ex out && missing_spec edj_ex out &&
                empty_spec edj_ex out && has_pair 1 7 out && has_pair 1 8 out && negb (has_pair 4 6 out) &&
                multiset_eqb out [(1, 7, PInt 1); (1, 8, PFloat (S754_zero false));
                                  (2, 7, PNone); (2, 8, PNone); (2, 9, PNone); (2, 6, PNone);
                                  (1, 9, PNone); (3, 9, PNone); (4, 9, PNone)]
  | None => false
  end = true.
Proof. vm_compute. reflexivity. Qed.

Definition edf_ex (k : fkind) : jcase :=
  {| j_entry := EFilter k "EDIT_DISTANCE"; j_t := PInt 1; j_q := 2; j_op := ">=";
     j_allow_empty := true; j_allow_missing := false; j_with_score := false; j_njobs := 2; j_cpus := 4;
     j_L := ed_L; j_R := ed_R |}.

Example edf_ex_valid k : k3 k -> valid_edf_case (edf_ex k) k 1.
Proof.
  intros Hk. split; [reflexivity|]. split; [exact Hk|]. split; [reflexivity|]. split; [lia|].
  split; [simpl; lia|]. split; [split; nodup_c|vm_compute; reflexivity].
Qed.

Example edf_ex_check :
  forallb (fun k => match api_join (edf_ex k) with
                    | Some out => complete_spec (edf_ex k) out && sound_spec (edf_ex k) out &&
                                  missing_spec (edf_ex k) out && empty_spec (edf_ex k) out &&
                                  has_pair 1 7 out && has_pair 1 8 out
                    | None => false
                    end) [KSize; KPrefix; KPosition] = true.
Proof. vm_compute. reflexivity. Qed.

Print Assumptions ed_join_total.
Print Assumptions ed_join_sound.
Print Assumptions ed_join_complete.
Print Assumptions ed_join_exact.
Print Assumptions ed_join_missing.
Print Assumptions ed_join_empty.
Print Assumptions ed_join_complete_qgram.
Print Assumptions edf_total.
Print Assumptions edf_sound.
Print Assumptions edf_complete_partial.
