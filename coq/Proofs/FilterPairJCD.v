(* C04 for JACCARD / COSINE / DICE: the models of SizeFilter / PrefixFilter / PositionFilter
   (filter_pair and the per-record find_candidates used by filter_tables) never drop a pair
   that qualifies for `>= t`.  Section FP is parametric in the measure and in F1/F2/F3/F5 and
   axiom-free; the closing theorems use Proofs/Arith{J,C,D}.v.                             *)
From Coq Require Import ZArith Bool List String Lia Sorted SpecFloat.
From SSJ Require Import F64 PyNum FilterUtilsGen HelperGen TokenOrdering Measures ArithSpec
     Filters Suffix Joins JoinSpec FilterSpec Prefix PositionSafe PrefixSets OrderingFacts PyFacts
     SetBridge SetPair.
Import ListNotations.
Open Scope string_scope.
Open Scope Z_scope.
Local Notation length := List.length.

(* ------------------------------------------------------------------ sharing a value *)
Lemma hits_pos_share A B : (1 <= hits A B)%nat -> share A B = true /\ share B A = true.
Proof.
  unfold hits. intros H.
  destruct (filter (fun y => mem y A) B) as [|w r] eqn:E; [simpl in H; lia|].
  assert (Hin : In w (filter (fun y => mem y A) B)) by (rewrite E; left; reflexivity).
  apply filter_In in Hin. destruct Hin as [HB HA].
  unfold share. split; apply existsb_exists.
  - exists w. split; [apply mem_In; exact HA|]. rewrite memZ_mem. apply mem_In. exact HB.
  - exists w. split; [exact HB|]. rewrite memZ_mem. exact HA.
Qed.

(* ------------------------------------------------------------------ PositionFilter.filter_pair's loop *)
(* The loop uses the frozen left position 0, so its bound is  cur + min(|X|, |Y| - j);
   it never prunes when alpha <= overlap, and it counts the prefix/prefix matches. *)
Section FpLoop.
  Variables XP XS Y : list Z.
  Let X := (XP ++ XS)%list.
  Variable al : Z.
  Hypothesis HsX : StronglySorted Z.lt X.
  Hypothesis HsY : StronglySorted Z.lt Y.
  Hypothesis Hal : al <= Z.of_nat (hits X Y).

  Lemma posfp_loop_counts : forall Y2 Y1 Y3 cur,
    Y = (Y1 ++ Y2 ++ Y3)%list ->
    cur = Z.of_nat (hits XP Y1) ->
    posfp_loop (len X) (len Y) (PInt al) XP Y2 (Z.of_nat (length Y1)) cur
    = Some (Z.of_nat (hits XP (Y1 ++ Y2))).
  Proof.
    induction Y2 as [|w Y2 IH]; intros Y1 Y3 cur HY Hcur.
    - simpl. rewrite app_nil_r. rewrite Hcur. reflexivity.
    - cbn [posfp_loop]. rewrite memZ_mem.
      replace (Y1 ++ w :: Y2)%list with ((Y1 ++ [w]) ++ Y2)%list
        by (rewrite <- app_assoc; reflexivity).
      replace (Z.of_nat (length Y1) + 1) with (Z.of_nat (length (Y1 ++ [w])))
        by (rewrite app_length; simpl; lia).
      destruct (mem w XP) eqn:Ew.
      + apply mem_In in Ew.
        assert (Hb : al <= cur + (1 + Z.min (len X - 0 - 1) (len Y - Z.of_nat (length Y1) - 1))).
        { assert (Ho : hits X Y = (hits X Y1 + hits X (w :: Y2 ++ Y3))%nat).
          { rewrite HY. rewrite hits_app. reflexivity. }
          assert (H1 : hits X Y1 = hits XP Y1).
          { apply hits_restrict.
            - intros y Hy HyX. unfold X in HyX. apply in_app_or in HyX.
              destruct HyX as [H|H]; [exact H|]. exfalso.
              assert (y < w).
              { rewrite HY in HsY.
                eapply (ssorted_app_lt Y1); [exact HsY|exact Hy|left; reflexivity]. }
              assert (w < y) by (eapply (ssorted_app_lt XP XS); [exact HsX|exact Ew|exact H]).
              lia.
            - intros y Hy. unfold X. apply in_or_app. left; exact Hy. }
          assert (H3 : (hits X (w :: Y2 ++ Y3) <= length (w :: Y2 ++ Y3))%nat) by apply hits_le.
          assert (H4 : (hits X Y <= length X)%nat).
          { pose proof (hits_le_sym X Y (ssorted_nodup Y HsY)). pose proof (hits_le Y X). lia. }
          assert (HlenY : len Y = Z.of_nat (length Y1) + Z.of_nat (length (w :: Y2 ++ Y3))).
          { unfold len. rewrite HY, app_length. simpl. lia. }
          unfold len at 1. lia. }
        rewrite py_lt_int.
        destruct (Z.ltb_spec (cur + (1 + Z.min (len X - 0 - 1) (len Y - Z.of_nat (length Y1) - 1))) al)
          as [Hlt|_]; [lia|].
        eapply IH with (Y3 := Y3).
        * rewrite HY, <- app_assoc. reflexivity.
        * rewrite hits_app. rewrite hits_cons_in by (apply mem_In; exact Ew).
          unfold hits at 2. simpl. lia.
      + eapply IH with (Y3 := Y3).
        * rewrite HY, <- app_assoc. reflexivity.
        * rewrite hits_app. rewrite hits_cons_notin by exact Ew.
          unfold hits at 2. simpl. lia.
  Qed.

  Theorem posfp_loop_result YP YS :
    Y = (YP ++ YS)%list ->
    posfp_loop (len X) (len Y) (PInt al) XP YP 0 0 = Some (Z.of_nat (hits XP YP)).
  Proof.
    intros HY. apply (posfp_loop_counts YP [] YS 0); [exact HY | reflexivity].
  Qed.
End FpLoop.

(* ------------------------------------------------------------------ generic theorems *)
Lemma py_or_le0 pa pb : 1 <= pa -> 1 <= pb ->
  py_truth (py_or (py_le (PInt pa) (PInt 0)) (py_le (PInt pb) (PInt 0))) = false.
Proof.
  intros Ha Hb. rewrite !py_le_int_val.
  destruct (Z.leb_spec pa 0); [lia|]. destruct (Z.leb_spec pb 0); [lia|]. reflexivity.
Qed.

Section FP.
  Variable m : string.
  Hypothesis Hm : is_jcd m = true.
  Hypothesis HF1 : F1_stmt m.
  Hypothesis HF2 : F2_stmt m.
  Hypothesis HF3 : F3_stmt m.
  Hypothesis HF5 : F5_stmt m.
  Variable t : f64.
  Variable q : Z.
  Hypothesis Ht : env_t t = true.
  Let p := {| fm := m; ft := PFloat t; fq := q |}.

  (* ---- the per-record candidates of filter_tables (any admissible ordering `all`) ---- *)
  Section Cand.
    Variables all x y : list Z.
    Hypothesis Hx : NoDup x.
    Hypothesis Hy : NoDup y.
    Hypothesis Hxa : forall w, In w x -> In w all.
    Hypothesis Hya : forall w, In w y -> In w all.
    Hypothesis Ha : len x < size_bound.
    Hypothesis Hb : len y < size_bound.
    Hypothesis Hne : ~ (x = [] /\ y = []).
    Variable op : string.
    Hypothesis Hop : op_ok op.
    Hypothesis Hq : qualifies m op (PFloat t) x y = true.
    Let X := order all x.
    Let Y := order all y.

    Lemma size_cand_qualifies : size_cand p (len X) (len Y) = true.
    Proof.
      destruct (set_bridge m HF1 HF2 HF3 HF5 t q Ht op all x y Hm Hop Hx Hy Hxa Hya Ha Hb Hne Hq)
        as [al [pa [pb [_ [_ [HlX [HlY [_ [_ [_ [Hs [W1 _]]]]]]]]]]]].
      fold p X Y in HlX, HlY, W1. destruct Hs as [Ho [Hoa [Hob _]]].
      unfold size_cand. rewrite HlX, HlY, W1.
      destruct (g_total m HF5 t q Ht (len y)) as [lb [_ [_ [Hlb [_ [_ [Rlb _]]]]]]]; [lia|].
      fold p in Hlb. rewrite Hlb, py_gt_int.
      destruct (Z.ltb_spec 0 (len x)); [|lia]. destruct (Z.ltb_spec (len y) lb); [lia|reflexivity].
    Qed.

    Lemma prefix_cand_qualifies : prefix_cand p X Y = Some true.
    Proof.
      destruct (set_bridge m HF1 HF2 HF3 HF5 t q Ht op all x y Hm Hop Hx Hy Hxa Hya Ha Hb Hne Hq)
        as [al [pa [pb [_ [_ [HlX [HlY [_ [_ [_ [_ [_ [_ [_ [_ [P1 [P2 [_ [_ [Ra [Rb Hh]]]]]]]]]]]]]]]]]]]]].
      fold p X Y in HlX, HlY, P1, P2, Hh.
      unfold prefix_cand. rewrite HlX, HlY, P1, P2.
      rewrite (slice0_nonneg pa X) by lia. rewrite (slice0_nonneg pb Y) by lia.
      f_equal. apply (hits_pos_share _ _ Hh).
    Qed.

    Lemma pos_cand_qualifies' : exists v, pos_cand p X Y = Some v /\ 0 < v.
    Proof.
      destruct (pos_cand_qualifies m Hm HF1 HF2 HF3 HF5 t q Ht all x y Hx Hy Hxa Hya op Hop Ha Hb Hne Hq)
        as [v [H1 [H2 _]]].
      exists v. split; assumption.
    Qed.

    (* what _filter_tables_split asks of one (record, probe) pair *)
    Theorem filter_cand_qualifies k :
      k = KSize \/ k = KPrefix \/ k = KPosition -> filter_cand k p X Y = Some true.
    Proof.
      intros [-> | [-> | ->]]; unfold filter_cand.
      - rewrite size_cand_qualifies. reflexivity.
      - apply prefix_cand_qualifies.
      - destruct pos_cand_qualifies' as [v [-> Hv]]. simpl.
        destruct (Z.ltb_spec 0 v); [reflexivity|lia].
    Qed.
  End Cand.

  (* ---- filter_pair: pair-level ordering  all := l ++ r ---- *)
  Section Pairwise.
    Variables l r : list Z.
    Hypothesis Hl : NoDup l.
    Hypothesis Hr : NoDup r.
    Hypothesis Ha : len l < size_bound.
    Hypothesis Hb : len r < size_bound.
    Hypothesis Hne : (len l =? 0) && (len r =? 0) = false.
    Hypothesis Hq : qualifies m ">=" (PFloat t) l r = true.
    Variable ae : bool.

    Let Hla : forall w, In w l -> In w (l ++ r)%list.
    Proof. intros w H. apply in_or_app. left; exact H. Qed.
    Let Hra : forall w, In w r -> In w (l ++ r)%list.
    Proof. intros w H. apply in_or_app. right; exact H. Qed.
    Let Hne' : ~ (l = [] /\ r = []).
    Proof. intros [-> ->]. discriminate Hne. Qed.
    Let Hop : op_ok ">=".
    Proof. left. reflexivity. Qed.

    Theorem size_filter_pair_safe : size_filter_pair p ae (len l) (len r) = false.
    Proof.
      destruct (qualifies_sizes m t Ht ">=" l r Hm Hop Hl Hr Ha Hb Hne' Hq) as [Hqg Hs].
      destruct (size_bridge m HF1 HF2 HF3 HF5 t q Ht _ _ _ Hs Hqg) as [al [pa [pb [_ [W2 _]]]]].
      fold p in W2. unfold size_filter_pair. rewrite Hne, W2. reflexivity.
    Qed.

    Theorem prefix_filter_pair_safe : prefix_filter_pair p ae l r = Some false.
    Proof.
      destruct (set_bridge m HF1 HF2 HF3 HF5 t q Ht ">=" (l ++ r) l r Hm Hop Hl Hr Hla Hra Ha Hb Hne' Hq)
        as [al [pa [pb [_ [_ [_ [_ [_ [_ [_ [_ [_ [_ [_ [_ [P1 [P2 [_ [_ [Ra [Rb Hh]]]]]]]]]]]]]]]]]]]]].
      fold p in P1, P2.
      unfold prefix_filter_pair. rewrite Hne. cbv zeta. rewrite P1, P2.
      rewrite py_or_le0 by lia.
      rewrite (slice0_nonneg pa) by lia. rewrite (slice0_nonneg pb) by lia.
      destruct (hits_pos_share _ _ Hh) as [Hs _]. rewrite Hs. reflexivity.
    Qed.

    Theorem position_filter_pair_safe : position_filter_pair p ae l r = Some false.
    Proof.
      destruct (set_bridge m HF1 HF2 HF3 HF5 t q Ht ">=" (l ++ r) l r Hm Hop Hl Hr Hla Hra Ha Hb Hne' Hq)
        as [al [pa [pb [HsX [HsY [HlX [HlY [Ho1 [_ [_ [_ [_ [_ [A1 [A2 [P1 [P2 [_ [_ [Ra [Rb Hh]]]]]]]]]]]]]]]]]]]]].
      fold p in A1, P1, P2.
      unfold position_filter_pair. rewrite Hne. cbv zeta. rewrite A1, P1, P2.
      rewrite py_or_le0 by lia.
      rewrite (slice0_nonneg pa) by lia. rewrite (slice0_nonneg pb) by lia.
      set (X := order (l ++ r) l) in *. set (Y := order (l ++ r) r) in *.
      set (XP := firstn (Z.to_nat pa) X) in *. set (YP := firstn (Z.to_nat pb) Y) in *.
      assert (EX : (XP ++ skipn (Z.to_nat pa) X)%list = X) by apply firstn_skipn.
      assert (EY : Y = (YP ++ skipn (Z.to_nat pb) Y)%list) by (symmetry; apply firstn_skipn).
      assert (Hloop : posfp_loop (len l) (len r) (PInt al) XP YP 0 0 = Some (Z.of_nat (hits XP YP))).
      { rewrite <- HlX, <- HlY. rewrite <- EX at 1.
        apply (posfp_loop_result XP (skipn (Z.to_nat pa) X) Y al) with (YS := skipn (Z.to_nat pb) Y).
        - rewrite EX. exact HsX.
        - exact HsY.
        - rewrite EX, <- Ho1. exact A2.
        - exact EY. }
      rewrite Hloop. destruct (Z.ltb_spec 0 (Z.of_nat (hits XP YP))); [reflexivity|lia].
    Qed.
  End Pairwise.
End FP.

(* ------------------------------------------------------------------ C04 for J / C / D *)
Lemma is_jcd_not_ed m : is_jcd m = true -> String.eqb m "EDIT_DISTANCE" = false.
Proof. intros H. destruct (is_jcd_cases m H) as [-> | [-> | ->]]; reflexivity. Qed.

Theorem filter_pair_safe_jcd (c : fpcase) (t : f64) (ls lt rs rt : list Z) :
  fp_which c = FSize \/ fp_which c = FPrefix \/ fp_which c = FPosition ->
  is_jcd (fm (fp_p c)) = true -> ft (fp_p c) = PFloat t -> env_t t = true ->
  fp_l c = Some (ls, lt) -> fp_r c = Some (rs, rt) ->
  NoDup lt -> NoDup rt -> len lt < size_bound -> len rt < size_bound ->
  fp_qualifies c = true -> model_filter_pair c = Some false.
Proof.
  intros Hw Hm Hft Ht HL HR Hl Hr Ha Hb Hq.
  destruct (jcd_F _ Hm) as [H1 [H2 [H3 H5]]].
  assert (Ep : fp_p c = {| fm := fm (fp_p c); ft := PFloat t; fq := fq (fp_p c) |}).
  { destruct (fp_p c) as [m0 t0 q0]. simpl in *. congruence. }
  assert (Hq' : (len lt =? 0) && (len rt =? 0) = false /\
                qualifies (fm (fp_p c)) ">=" (PFloat t) lt rt = true).
  { unfold fp_qualifies in Hq. rewrite HL, HR, (is_jcd_not_ed _ Hm), Hft in Hq.
    destruct Hw as [Hw | [Hw | Hw]]; rewrite Hw in Hq;
      (destruct ((len lt =? 0) && (len rt =? 0)); [discriminate|split; [reflexivity|exact Hq]]). }
  destruct Hq' as [Hne Hqq].
  unfold model_filter_pair. rewrite HL, HR.
  destruct Hw as [Hw | [Hw | Hw]]; rewrite Hw, Ep.
  - f_equal. apply size_filter_pair_safe; assumption.
  - apply prefix_filter_pair_safe; assumption.
  - apply position_filter_pair_safe; assumption.
Qed.

(* the same fact in the shape of Spec/FilterSpec.v's C04 check *)
Corollary fp_safe_spec_jcd (c : fpcase) (t : f64) (ls lt rs rt : list Z) :
  fp_which c = FSize \/ fp_which c = FPrefix \/ fp_which c = FPosition ->
  is_jcd (fm (fp_p c)) = true -> ft (fp_p c) = PFloat t -> env_t t = true ->
  fp_l c = Some (ls, lt) -> fp_r c = Some (rs, rt) ->
  NoDup lt -> NoDup rt -> len lt < size_bound -> len rt < size_bound ->
  exists d, model_filter_pair c = Some d /\ fp_safe_spec c d = true.
Proof.
  intros Hw Hm Hft Ht HL HR Hl Hr Ha Hb. unfold fp_safe_spec.
  destruct (fp_qualifies c) eqn:Hq.
  - exists false. split; [|reflexivity]. eapply filter_pair_safe_jcd; eassumption.
  - destruct (jcd_F _ Hm) as [_ [_ [_ H5]]].
    destruct (model_filter_pair c) as [d|] eqn:E; [exists d; split; reflexivity|exfalso].
    revert E. unfold model_filter_pair. rewrite HL, HR.
    assert (Ep : fp_p c = {| fm := fm (fp_p c); ft := PFloat t; fq := fq (fp_p c) |}).
    { destruct (fp_p c) as [m0 t0 q0]. simpl in *. congruence. }
    assert (Hsl : forall n (l : list Z), 0 <= n < size_bound ->
                    exists s, slice0 (g_pl (fp_p c) n) l = Some s).
    { intros n l Hn. rewrite Ep. apply slice_total; assumption. }
    assert (Hla : 0 <= len lt < size_bound) by (unfold len in *; lia).
    assert (Hra : 0 <= len rt < size_bound) by (unfold len in *; lia).
    destruct Hw as [Hw | [Hw | Hw]]; rewrite Hw; [discriminate| |].
    + unfold prefix_filter_pair. cbv zeta.
      destruct ((len lt =? 0) && (len rt =? 0)); [discriminate|].
      destruct (py_truth _); [discriminate|].
      destruct (Hsl (len lt) (order (lt ++ rt) lt) Hla) as [s1 ->].
      destruct (Hsl (len rt) (order (lt ++ rt) rt) Hra) as [s2 ->]. discriminate.
    + unfold position_filter_pair. cbv zeta.
      destruct ((len lt =? 0) && (len rt =? 0)); [discriminate|].
      destruct (py_truth _); [discriminate|].
      destruct (Hsl (len lt) (order (lt ++ rt) lt) Hla) as [s1 ->].
      destruct (Hsl (len rt) (order (lt ++ rt) rt) Hra) as [s2 ->].
      destruct (posfp_loop _ _ _ _ _ _ _); discriminate.
Qed.

(* table-level candidates, for any ordering that covers both token lists *)
Theorem filter_cand_safe_jcd m t q k all x y :
  is_jcd m = true -> env_t t = true ->
  k = KSize \/ k = KPrefix \/ k = KPosition ->
  NoDup x -> NoDup y ->
  (forall w, In w x -> In w all) -> (forall w, In w y -> In w all) ->
  len x < size_bound -> len y < size_bound -> ~ (x = [] /\ y = []) ->
  qualifies m ">=" (PFloat t) x y = true ->
  let p := {| fm := m; ft := PFloat t; fq := q |} in
  filter_cand k p (order all x) (order all y) = Some true /\
  size_cand p (len (order all x)) (len (order all y)) = true /\
  prefix_cand p (order all x) (order all y) = Some true /\
  exists v, pos_cand p (order all x) (order all y) = Some v /\ 0 < v.
Proof.
  intros Hm Ht Hk Hx Hy Hxa Hya Ha Hb Hne Hq p.
  destruct (jcd_F m Hm) as [H1 [H2 [H3 H5]]].
  assert (Hop : op_ok ">=") by (left; reflexivity).
  split; [|split; [|split]].
  - eapply filter_cand_qualifies; eassumption.
  - eapply size_cand_qualifies; eassumption.
  - eapply prefix_cand_qualifies; eassumption.
  - eapply pos_cand_qualifies'; eassumption.
Qed.

(* ------------------------------------------------------------------ non-vacuity *)
Definition ex_case (w : fwhich) : fpcase :=
  {| fp_which := w;
     fp_p := {| fm := "COSINE"; ft := PFloat (mkF 1 (-1)); fq := 2 |};
     fp_op := ">="; fp_allow_empty := true; fp_allow_missing := false;
     fp_l := Some ([], [1;2;3;4;5]); fp_r := Some ([], [2;3;4;7]) |}.

Example filter_pair_ex :
  env_t (mkF 1 (-1)) = true /\
  fp_qualifies (ex_case FSize) = true /\
  model_filter_pair (ex_case FSize) = Some false /\
  model_filter_pair (ex_case FPrefix) = Some false /\
  model_filter_pair (ex_case FPosition) = Some false /\
  (* and a pair far below the threshold is dropped by all three *)
  model_filter_pair {| fp_which := FPosition; fp_p := fp_p (ex_case FSize); fp_op := ">=";
                       fp_allow_empty := true; fp_allow_missing := false;
                       fp_l := Some ([], [1;2;3;4;5]); fp_r := Some ([], [5;7;8;9]) |} = Some true.
Proof. vm_compute. repeat split; reflexivity. Qed.

Print Assumptions posfp_loop_result.
Print Assumptions position_filter_pair_safe.
Print Assumptions filter_cand_qualifies.
Print Assumptions filter_pair_safe_jcd.
Print Assumptions fp_safe_spec_jcd.
Print Assumptions filter_cand_safe_jcd.
