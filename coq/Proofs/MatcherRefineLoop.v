(* The GENERATED per-chunk matcher loop (Gen/MatcherGen.v: apply_matcher_split_rows, from
   matcher/apply_matcher.py:_apply_matcher_split) as an explicit row-wise function:

     apply_matcher_split_rows candset .. ltable rtable ..  =  frame (header, flat_map row_out (rows of candset))

   where, for a candidate row, row_out looks the two key cells up in the tables (first row whose key cell
   is == to the probe), skips / keeps the pair when a match value is missing according to allow_missing
   (score NaN), and otherwise applies sim_function to the (cached / freshly tokenised / raw) match values
   and keeps the pair iff comp_fn(score, threshold) is true.  The kept row is
       [_id := first cell of the candidate row; left key; right key; requested left cells; requested right
        cells] (+ score)          -- with output attributes the key cells are those of the TABLE rows,
       [_id; candset left key cell; candset right key cell] (+ score)   -- without.
   Lists only; axiom-free.  The link with Model/Matcher.v is MatcherRefineSplit.v.                     *)
From Coq Require Import ZArith Bool List String Lia.
From SSJ Require Import F64 PyNum HelperGen JoinGen Projection ProjSpec ProjectionFacts IndexPyFacts JoinGenFacts
     Frame WrapperGen FilterPairGen MatcherGen WrapperRefineFrame WrapperRefineMissing WrapperRefineCore
     FilterPairRefineBase MatcherRefineBase.
Import ListNotations.
Open Scope Z_scope.

Definition is_none (v : pyval) : bool := match v with PNone => true | _ => false end.

Lemma py_is_not_none_val v : is_exc v = false -> py_is_not_none v = PBool (negb (is_none v)).
Proof. destruct v; try reflexivity. discriminate. Qed.

Lemma missing_cell_missing v : missing v = cell_missing v.
Proof. reflexivity. Qed.

Lemma getitem_dict d k : is_exc k = false ->
  py_getitem (PDict d) k = match dict_lookup d k with Some v => v | None => KeyError end.
Proof. destruct k; try reflexivity. discriminate. Qed.

Lemma bool_cases (b : bool) : {b = true} + {b = false}.
Proof. destruct b; auto. Qed.

Lemma find_row_In ki rows kc r : find_row ki rows kc = Some r -> In r rows.
Proof. unfold find_row. intros H. apply find_some in H. tauto. Qed.

Section Loop.
  Variables (lc rc cc : list string) (lrows rrows crows : list (list pyval)).
  Variables (lk rk lm rm clk crk : string) (lo ro : option (list string)) (lp rp : string).
  Variables (ws am : bool) (op : string) (cf : pyval -> pyval -> pyval) (t showp : pyval).
  Variables (tokv ltokv rtokv : pyval) (tokenize : pyval -> pyval) (sim_fn : pyval -> pyval -> pyval).

  Definition m_ki := posn lk lc.
  Definition m_mi := posn lm lc.
  Definition m_li := map (fun a => posn a lc) (opt_list lo).
  Definition m_kj := posn rk rc.
  Definition m_mj := posn rm rc.
  Definition m_ri := map (fun a => posn a rc) (opt_list ro).
  Definition m_cki := posn clk cc.
  Definition m_ckj := posn crk cc.
  Definition m_has : bool := match lo, ro with None, None => false | _, _ => true end.
  Definition m_tokb : bool := negb (is_none tokv).
  Definition m_cacheb : bool := negb (is_none ltokv) && negb (is_none rtokv).

  (* the value handed to sim_function for a match cell: raw, tokenised, or read from the token cache *)
  Definition prep (toks kc cell : pyval) : pyval :=
    if m_tokb then (if m_cacheb then py_getitem toks kc else tokenize cell) else cell.

  Definition m_header : list string :=
    ("_id" :: (lp ++ lk) :: (rp ++ rk)
       :: (map (append lp) (opt_list lo) ++ map (append rp) (opt_list ro)))%string
    ++ (if ws then ["_sim_score"%string] else []).

  Definition out_cells (crow lrow rrow : list pyval) : list pyval :=
    if m_has then
      nth 0 crow PNone :: nth m_ki lrow PNone :: nth m_kj rrow PNone
        :: (map (fun n => nth n lrow PNone) m_li ++ map (fun n => nth n rrow PNone) m_ri)
    else [nth 0 crow PNone; nth m_cki crow PNone; nth m_ckj crow PNone].
  Definition scored (s : pyval) (cells : list pyval) : list pyval := cells ++ if ws then [s] else [].

  Definition pair_score (crow lrow rrow : list pyval) : pyval :=
    sim_fn (prep ltokv (nth m_cki crow PNone) (nth m_mi lrow PNone))
           (prep rtokv (nth m_ckj crow PNone) (nth m_mj rrow PNone)).

  (* one iteration: the output rows (none or one) of a candidate row *)
  Definition row_out (crow : list pyval) : list (list pyval) :=
    match find_row m_ki lrows (nth m_cki crow PNone), find_row m_kj rrows (nth m_ckj crow PNone) with
    | Some lrow, Some rrow =>
        if cell_missing (nth m_mi lrow PNone) || cell_missing (nth m_mj rrow PNone) then
          if am then [scored py_nan (out_cells crow lrow rrow)] else []
        else
          let s := pair_score crow lrow rrow in
          if py_truth (cf s t) then [scored s (out_cells crow lrow rrow)] else []
    | _, _ => []
    end.

  (* what a candidate row must satisfy: both keys are found (no KeyError); the match cells are scalars;
     when both are present, preparing them, scoring and comparing raise nothing *)
  Definition row_hyps (crow : list pyval) : Prop :=
    exists lrow rrow,
      find_row m_ki lrows (nth m_cki crow PNone) = Some lrow /\
      find_row m_kj rrows (nth m_ckj crow PNone) = Some rrow /\
      scalar (nth m_mi lrow PNone) /\ scalar (nth m_mj rrow PNone) /\
      (cell_missing (nth m_mi lrow PNone) || cell_missing (nth m_mj rrow PNone) = false ->
       is_exc (prep ltokv (nth m_cki crow PNone) (nth m_mi lrow PNone)) = false /\
       is_exc (prep rtokv (nth m_ckj crow PNone) (nth m_mj rrow PNone)) = false /\
       is_exc (pair_score crow lrow rrow) = false /\
       is_exc (cf (pair_score crow lrow rrow) t) = false).

  Hypothesis Hls : shaped (List.length lc) lrows.
  Hypothesis Hrs : shaped (List.length rc) rrows.
  Hypothesis Hcs : shaped (List.length cc) crows.
  Hypothesis Hlok : forall r, In r lrows -> row_ok r.
  Hypothesis Hrok : forall r, In r rrows -> row_ok r.
  Hypothesis Hcok : forall r, In r crows -> row_ok r.
  Hypothesis Hlk : In lk lc.
  Hypothesis Hlm : In lm lc.
  Hypothesis Hlo : forall a, In a (opt_list lo) -> In a lc.
  Hypothesis Hrk : In rk rc.
  Hypothesis Hrm : In rm rc.
  Hypothesis Hro : forall a, In a (opt_list ro) -> In a rc.
  Hypothesis Hclk : In clk cc.
  Hypothesis Hcrk : In crk cc.
  Hypothesis Hld : distinct_keys m_ki lrows.
  Hypothesis Hrd : distinct_keys m_kj rrows.
  Hypothesis Hop : comp_op_map op = Some cf.
  Hypothesis Htokv : is_exc tokv = false.
  Hypothesis Hltokv : is_exc ltokv = false.
  Hypothesis Hrtokv : is_exc rtokv = false.
  Hypothesis Hrows : forall crow, In crow crows -> row_hyps crow.

  Lemma out_cells_length crow lrow rrow :
    List.length (scored PNone (out_cells crow lrow rrow)) = List.length m_header.
  Proof.
    unfold scored, out_cells, m_header, m_has, m_li, m_ri.
    destruct lo as [l|]; destruct ro as [r|]; destruct ws;
      cbn [opt_list map app List.length]; rewrite ?app_length, ?map_length; cbn [List.length]; lia.
  Qed.

  Lemma row_out_shaped : shaped (List.length m_header) (flat_map row_out crows).
  Proof.
    intros r Hr. apply in_flat_map in Hr. destruct Hr as (crow & _ & Hr).
    unfold row_out in Hr.
    destruct (find_row m_ki lrows _) as [lrow|]; [|destruct Hr].
    destruct (find_row m_kj rrows _) as [rrow|]; [|destruct Hr].
    rewrite <- (out_cells_length crow lrow rrow).
    destruct (cell_missing _ || cell_missing _).
    - destruct am; [|destruct Hr]. destruct Hr as [<-|[]]. unfold scored. rewrite !app_length.
      destruct ws; reflexivity.
    - cbv zeta in Hr. destruct (py_truth _); [|destruct Hr]. destruct Hr as [<-|[]]. unfold scored.
      rewrite !app_length. destruct ws; reflexivity.
  Qed.

  Definition Iloop (acc : list (list pyval))
    (s : pyval * (pyval * (pyval * (pyval * (pyval * (pyval * (pyval * (pyval * (pyval * (pyval * pyval))))))))))
    : Prop :=
    exists t1 t2 t3 t4 t5 t6 t7 t8 t9,
      s = (PNone, (t1, (t2, (t3, (t4, (t5, (t6, (t7, (t8, (t9, PList (map PList acc))))))))))).

  (* the output row the generated code builds when there are output attributes *)
  Lemma row_has_cells lrow rrow : In lrow lrows -> In rrow rrows ->
    get_output_row_from_tables (PTuple lrow) (PTuple rrow) (natpy m_ki) (natpy m_kj)
                               (PList (map natpy m_li)) (PList (map natpy m_ri))
    = PList (nth m_ki lrow PNone :: nth m_kj rrow PNone
               :: (map (fun n => nth n lrow PNone) m_li ++ map (fun n => nth n rrow PNone) m_ri)%list).
  Proof.
    intros Hl Hr.
    assert (Hll : List.length lrow = List.length lc) by (apply Hls; exact Hl).
    assert (Hlr : List.length rrow = List.length rc) by (apply Hrs; exact Hr).
    apply (get_output_row_from_tables_idx (PTuple lrow) lrow (PTuple rrow) rrow).
    - apply getrow_tuple.
    - apply getrow_tuple.
    - apply Hlok; exact Hl.
    - apply Hrok; exact Hr.
    - rewrite Hll. apply posn_lt. exact Hlk.
    - rewrite Hlr. apply posn_lt. exact Hrk.
    - intros n Hn. unfold m_li in Hn. apply in_map_iff in Hn. destruct Hn as (a & <- & Ha).
      rewrite Hll. apply posn_lt. apply Hlo. exact Ha.
    - intros n Hn. unfold m_ri in Hn. apply in_map_iff in Hn. destruct Hn as (a & <- & Ha).
      rewrite Hlr. apply posn_lt. apply Hro. exact Ha.
  Qed.

  Lemma py_insert0_ok l x : is_exc x = false -> py_insert0 (PList l) x = PList (x :: l).
  Proof. destruct x; try reflexivity. discriminate. Qed.

  Lemma crow_cells crow : In crow crows ->
    (0 < List.length crow)%nat /\ (m_cki < List.length crow)%nat /\ (m_ckj < List.length crow)%nat /\
    is_exc (nth 0 crow PNone) = false /\ is_exc (nth m_cki crow PNone) = false /\
    is_exc (nth m_ckj crow PNone) = false.
  Proof.
    intros Hc.
    assert (H1 : (m_cki < List.length crow)%nat) by (rewrite (Hcs crow Hc); apply posn_lt; exact Hclk).
    assert (H2 : (m_ckj < List.length crow)%nat) by (rewrite (Hcs crow Hc); apply posn_lt; exact Hcrk).
    assert (H0 : (0 < List.length crow)%nat) by lia.
    repeat split; try assumption; apply (Hcok crow Hc); apply nth_In; assumption.
  Qed.

  (* the tail of an iteration that keeps the pair: build the row, append the score, append the row *)
  Ltac emit_row lrow rrow crow Hl Hr Hc0 E0 Hs :=
    destruct m_has eqn:Eh; cbn [py_truth bindx];
    [ rewrite (row_has_cells lrow rrow Hl Hr); cbn [bindx];
      change (PInt 0) with (natpy 0%nat); rewrite (getrow_tuple crow 0%nat Hc0);
      rewrite (py_insert0_ok _ _ E0); cbn [bindx]
    | change (PInt 0) with (natpy 0%nat); rewrite (getrow_tuple crow 0%nat Hc0); cbn [bindx] ];
    cbv beta iota; cbn [bindx];
    (destruct (bool_cases ws) as [Ews|Ews]; rewrite Ews; cbn [py_truth bindx];
     [ rewrite (py_append_ok _ _ Hs); cbn [bindx] | ];
     cbv beta iota; cbn [bindx]; rewrite append_rows; cbn [bindx];
     unfold Iloop, scored, out_cells; rewrite Eh, Ews; rewrite ?app_nil_r;
     do 9 eexists; reflexivity).

  Theorem apply_matcher_split_rows_loop :
    apply_matcher_split_rows (sframe cc crows) (PStr clk) (PStr crk) (sframe lc lrows) (sframe rc rrows)
      (PStr lk) (PStr rk) (PStr lm) (PStr rm) tokv t (PStr op) (PBool am) (py_opt_strs lo) (py_opt_strs ro)
      (PStr lp) (PStr rp) (PBool ws) showp ltokv rtokv tokenize sim_fn
    = sframe m_header (flat_map row_out crows).
  Proof.
    unfold apply_matcher_split_rows.
    assert (Hkil : (m_ki < List.length lc)%nat) by (apply posn_lt; exact Hlk).
    assert (Hkjl : (m_kj < List.length rc)%nat) by (apply posn_lt; exact Hrk).
    assert (Hlkey : forall r, In r lrows -> is_exc (nth m_ki r PNone) = false)
      by (intros r Hr; apply (Hlok r Hr); apply nth_In; rewrite (Hls r Hr); exact Hkil).
    assert (Hrkey : forall r, In r rrows -> is_exc (nth m_kj r PNone) = false)
      by (intros r Hr; apply (Hrok r Hr); apply nth_In; rewrite (Hrs r Hr); exact Hkjl).
    repeat first [ rewrite frame_columns_sframe by assumption
                 | rewrite py_list_strs
                 | rewrite py_index_strs by assumption
                 | rewrite find_output_attribute_indices_opt by assumption
                 | rewrite IndexPyFacts.bindx_ok by reflexivity ].
    unfold idx_py at 1 2. fold (natpy (posn lk lc)). fold m_ki.
    rewrite (build_dict_from_table_eq lc lrows m_ki) by assumption.
    rewrite (IndexPyFacts.bindx_ok (PDict _)) by reflexivity.
    unfold idx_py at 1 2. fold (natpy (posn rk rc)). fold m_kj.
    rewrite (build_dict_from_table_eq rc rrows m_kj) by assumption.
    rewrite (IndexPyFacts.bindx_ok (PDict _)) by reflexivity.
    repeat first [ rewrite frame_columns_sframe by assumption
                 | rewrite py_list_strs
                 | rewrite py_index_strs by assumption
                 | rewrite IndexPyFacts.bindx_ok by reflexivity ].
    rewrite (comp_op_lookup_str op cf Hop).
    assert (Ehas : py_or (py_is_not_none (py_opt_strs lo)) (py_is_not_none (py_opt_strs ro)) = PBool m_has).
    { unfold m_has. destruct lo, ro; reflexivity. }
    rewrite Ehas. rewrite (IndexPyFacts.bindx_ok (PBool m_has)) by reflexivity.
    rewrite (py_is_not_none_val tokv Htokv).
    rewrite (IndexPyFacts.bindx_ok (PBool _)) by reflexivity.
    change (py_truth (PBool (negb (is_none tokv)))) with m_tokb.
    set (usecv := if m_tokb then PBool m_cacheb else PExc "UnboundLocalError").
    match goal with |- context [if m_tokb then ?X else ?Y] =>
      assert (Eblk : (if m_tokb then X else Y) = (PNone, (PBool m_tokb, usecv))) end.
    { unfold usecv, m_cacheb. destruct m_tokb; [|reflexivity].
      rewrite !py_is_not_none_val by assumption. destruct (is_none ltokv), (is_none rtokv); reflexivity. }
    rewrite Eblk. clear Eblk. cbv beta iota. rewrite (IndexPyFacts.bindx_ok PNone) by reflexivity.
    rewrite frame_itertuples_sframe by assumption.
    rewrite !idx_py_map. fold m_li m_ri.
    change (idx_py lc lk) with (natpy m_ki). change (idx_py rc rk) with (natpy m_kj).
    change (idx_py lc lm) with (natpy m_mi). change (idx_py rc rm) with (natpy m_mj).
    change (idx_py cc clk) with (natpy m_cki). change (idx_py cc crk) with (natpy m_ckj).
    match goal with |- context [py_for (PList (map PTuple crows)) ?r ?f ?b ?s0] =>
      pose proof (py_for_inv _ _ _ PTuple Iloop r f b
                    (fun acc crow => (acc ++ row_out crow)%list) crows s0 []) as HI end.
    lapply HI; [clear HI; intros HI|].
    2:{ unfold Iloop. do 9 eexists. reflexivity. }
    lapply HI; [clear HI; intros HI|].
    2:{ intros acc s (t1 & t2 & t3 & t4 & t5 & t6 & t7 & t8 & t9 & ->). reflexivity. }
    lapply HI; [clear HI; intros HI|].
    - destruct HI as (t1 & t2 & t3 & t4 & t5 & t6 & t7 & t8 & t9 & E). rewrite E. clear E.
      cbv beta iota. rewrite (IndexPyFacts.bindx_ok PNone) by reflexivity.
      rewrite get_output_header_from_tables_opt.
      rewrite (IndexPyFacts.bindx_ok (py_strs _)) by reflexivity.
      unfold py_strs at 1. cbn [py_insert0 strict2].
      rewrite (IndexPyFacts.bindx_ok (PList _)) by reflexivity.
      rewrite (IndexPyFacts.bindx_ok (PBool ws)) by reflexivity.
      rewrite fold_left_app_flat. cbn [app].
      assert (Em := frame_make_sframe (flat_map row_out crows) m_header row_out_shaped).
      unfold py_strs in Em. unfold m_header in Em at 1.
      destruct (bool_cases ws) as [Ews|Ews]; rewrite Ews in Em |- *; cbn [py_truth py_append strict2 bindx].
      + rewrite map_app in Em. cbn [map app] in Em |- *. rewrite Em. reflexivity.
      + rewrite app_nil_r in Em. cbn [map] in Em |- *. rewrite Em. reflexivity.

    - clear HI. intros acc s crow Hin (t1 & t2 & t3 & t4 & t5 & t6 & t7 & t8 & t9 & ->).
      cbv beta iota.
      destruct (crow_cells crow Hin) as (Hc0 & Hc1 & Hc2 & E0 & E1 & E2).
      destruct (Hrows crow Hin) as (lrow & rrow & Fl & Fr & Sl & Sr & Hpres).
      assert (Hl : In lrow lrows) by (eapply find_row_In; exact Fl).
      assert (Hr : In rrow rrows) by (eapply find_row_In; exact Fr).
      assert (Hml : (m_mi < List.length lrow)%nat) by (rewrite (Hls lrow Hl); apply posn_lt; exact Hlm).
      assert (Hmr : (m_mj < List.length rrow)%nat) by (rewrite (Hrs rrow Hr); apply posn_lt; exact Hrm).
      assert (Ea : is_exc (nth m_mi lrow PNone) = false) by (apply (Hlok lrow Hl); apply nth_In; exact Hml).
      assert (Eb : is_exc (nth m_mj rrow PNone) = false) by (apply (Hrok rrow Hr); apply nth_In; exact Hmr).
      rewrite (IndexPyFacts.bindx_ok (PTuple crow)) by reflexivity.
      rewrite (getrow_tuple crow m_cki Hc1). rewrite (IndexPyFacts.bindx_ok (nth m_cki crow PNone)) by exact E1.
      rewrite (getrow_tuple crow m_ckj Hc2). rewrite (IndexPyFacts.bindx_ok (nth m_ckj crow PNone)) by exact E2.
      rewrite (getitem_dict _ _ E1), dict_lookup_rows, Fl. cbn [option_map].
      rewrite (IndexPyFacts.bindx_ok (PTuple lrow)) by reflexivity.
      rewrite (getitem_dict _ _ E2), dict_lookup_rows, Fr. cbn [option_map].
      rewrite (IndexPyFacts.bindx_ok (PTuple rrow)) by reflexivity.
      rewrite (getrow_tuple lrow m_mi Hml). rewrite (IndexPyFacts.bindx_ok (nth m_mi lrow PNone)) by exact Ea.
      rewrite (getrow_tuple rrow m_mj Hmr). rewrite (IndexPyFacts.bindx_ok (nth m_mj rrow PNone)) by exact Eb.
      rewrite (isnull_test _ _ Sl Sr). change missing with cell_missing.
      rewrite (IndexPyFacts.bindx_ok (PBool _)) by reflexivity.
      unfold row_out. rewrite Fl, Fr. cbv zeta.
      destruct (cell_missing (nth m_mi lrow PNone) || cell_missing (nth m_mj rrow PNone)) eqn:Em;
        cbn [py_truth].
      + (* a match value is missing *)
        destruct (bool_cases am) as [Eam|Eam]; rewrite Eam; cbn [bindx py_truth].
        * emit_row lrow rrow crow Hl Hr Hc0 E0 (@eq_refl bool (is_exc py_nan)).
        * rewrite app_nil_r. unfold Iloop. do 9 eexists. reflexivity.
      + (* both present *)
        destruct (Hpres eq_refl) as (Hp1 & Hp2 & Hs & Hcmp).
        unfold pair_score in *. unfold prep in *. subst usecv.
        destruct m_tokb eqn:Et; cbn [bindx py_truth];
          [destruct m_cacheb eqn:Ec; cbn [bindx py_truth]|];
          try (rewrite (IndexPyFacts.bindx_ok _ _ _ Hp1); rewrite (IndexPyFacts.bindx_ok _ _ _ Hp2));
          cbv beta iota; rewrite ?(IndexPyFacts.bindx_ok PNone) by reflexivity; cbv beta iota;
          rewrite (IndexPyFacts.bindx_ok _ _ _ Hs);
          rewrite (IndexPyFacts.bindx_ok _ _ _ Hcmp); rewrite (IndexPyFacts.bindx_ok _ _ _ Hcmp);
          match goal with |- context [py_truth (cf ?s t)] => destruct (py_truth (cf s t)) eqn:Ecmp end;
          first [ emit_row lrow rrow crow Hl Hr Hc0 E0 Hs
                | rewrite app_nil_r; unfold Iloop; do 9 eexists; reflexivity ].
  Qed.
End Loop.

Print Assumptions apply_matcher_split_rows_loop.
