(* A concrete instance of JoinRefineProj.set_sim_join_rows_refines_proj: every hypothesis of the
   refinement theorem is discharged by computation (so the hypotheses are jointly satisfiable),
   and the values the theorem speaks about are computed with vm_compute.                  *)
From Coq Require Import ZArith Bool List String Lia Permutation.
From SSJ Require Import F64 PyNum FilterUtilsGen HelperGen TokenOrderingGen ValidationGen IndexGen JoinGen
     TokenOrdering Measures Filters Joins Projection ProjSpec ProjectionFacts
     IndexPyFacts JoinGenFacts JoinGenLoop JoinRefine JoinRefineProj.
Import ListNotations.
Open Scope Z_scope.

Definition ex_c : pcase :=
  {| p_lcols := ["id"; "s"; "x"]%string; p_rcols := ["rid"; "t"]%string;
     p_lkey := "id"%string; p_rkey := "rid"%string; p_ljoin := "s"%string; p_rjoin := "t"%string;
     p_lout := Some ["x"; "id"; "x"]%string; p_rout := None;
     p_lpre := "l_"%string; p_rpre := "r_"%string; p_score := true |}.
Definition ex_lsrc : list (list pyval) :=
  [[PInt 1; PStr "a b"; PInt 7]; [PInt 2; PStr "b"; PNone]; [PInt 3; PStr ""; PStr "u"]].
Definition ex_rsrc : list (list pyval) := [[PInt 5; PStr "b a"]; [PInt 6; PStr ""]; [PInt 7; PStr "c"]].
Definition ex_toks (v : pyval) : list Z :=
  match v with
  | PStr s => if String.eqb s "a b" then [1; 2] else if String.eqb s "b a" then [2; 1]
              else if String.eqb s "b" then [2] else if String.eqb s "c" then [3] else []
  | _ => []
  end.
Definition ex_tokenize (v : pyval) : pyval := pints (ex_toks v).
Definition ints_of (v : pyval) : list Z :=
  match v with PList l => map (fun x => match x with PInt z => z | _ => 0 end) l | _ => [] end.
Definition ex_sim (a b : pyval) : pyval := PFloat (sim_tok "JACCARD" (ints_of a) (ints_of b)).
Definition ex_p : fparams := {| fm := "JACCARD"; ft := PFloat (mkF 1 (-1)); fq := 0 |}.

Lemma ints_of_pints l : ints_of (pints l) = l.
Proof. unfold ints_of, pints. rewrite map_map. apply map_id. Qed.

Example ex_refines :
  let lo := dedupe_out (p_lkey ex_c) (p_lout ex_c) in
  let lp := proj_list (p_lkey ex_c) (p_ljoin ex_c) lo in
  let rp := proj_list (p_rkey ex_c) (p_rjoin ex_c) (dedupe_out (p_rkey ex_c) (p_rout ex_c)) in
  let lrows := map (fun row => map (cellv (p_lcols ex_c) row) lp) ex_lsrc in
  let rrows := map (fun row => map (cellv (p_rcols ex_c) row) rp) ex_rsrc in
  let L := map (fun row => ex_toks (cellv (p_lcols ex_c) row (p_ljoin ex_c))) ex_lsrc in
  let R := map (fun row => ex_toks (cellv (p_rcols ex_c) row (p_rjoin ex_c))) ex_rsrc in
  exists T rows header,
    set_sim_join_core ex_p ">=" true L R = Some T /\
    set_sim_join_rows (PList (map PList lrows)) (PList (map PList rrows)) (l_proj ex_c) (r_proj ex_c)
      (PStr "id") (PStr "rid") (PStr "s") (PStr "t") (PStr "JACCARD") (ft ex_p) (PStr ">=") (PBool true)
      (l_out ex_c) (r_out ex_c) (PStr "l_") (PStr "r_") (PBool true) (PBool false) (PInt 0)
      ex_tokenize ex_sim = PTuple [PList (map PList rows); header] /\
    py_insert0 header (PStr "_id") = py_strs (header_spec ex_c) /\
    Permutation rows (map (spec_row ex_c ex_lsrc ex_rsrc) T).
Proof.
  cbv zeta.
  destruct (set_sim_join_rows_refines_proj ex_c ex_p ">=" true ex_lsrc ex_rsrc (PBool false)
              ex_tokenize ex_sim ex_toks py_ge) as (T & rows & header & H1 & H2 & H3 & H4 & _).
  - apply well_formedb_sound. reflexivity.
  - intros row [<- | [<- | [<- | []]]]; (split; [reflexivity | apply row_okb_sound; reflexivity]).
  - intros row [<- | [<- | [<- | []]]]; (split; [reflexivity | apply row_okb_sound; reflexivity]).
  - intros row _. reflexivity.
  - intros row _. reflexivity.
  - left. reflexivity.
  - reflexivity.
  - reflexivity.
  - discriminate.
  - intros x Hx. vm_compute in Hx. destruct Hx as [<- | [<- | [<- | []]]]; eexists; vm_compute; reflexivity.
  - intros y Hy He. vm_compute in Hy.
    destruct Hy as [<- | [<- | [<- | []]]]; try discriminate He.
    + exists 1, 4, 2. split; [vm_compute; reflexivity|]. split; [vm_compute; reflexivity|]. split; [vm_compute; reflexivity|].
      intros s H0 Hs. assert (Es : s = 1 \/ s = 2 \/ s = 3 \/ s = 4) by lia.
      destruct Es as [-> | [-> | [-> | ->]]]; vm_compute; discriminate.
    + exists 1, 2, 1. split; [vm_compute; reflexivity|]. split; [vm_compute; reflexivity|]. split; [vm_compute; reflexivity|].
      intros s H0 Hs. assert (Es : s = 1 \/ s = 2) by lia.
      destruct Es as [-> | ->]; vm_compute; discriminate.
  - intros x y _ _. unfold ex_sim. now rewrite !ints_of_pints.
  - exists T, rows, header. repeat split; assumption.
Qed.

(* the values: what the generated loop returns, and the model's triples *)
Definition ex_lp := proj_list "id" "s" (dedupe_out "id" (p_lout ex_c)).
Definition ex_rp := proj_list "rid" "t" (dedupe_out "rid" (p_rout ex_c)).
Eval vm_compute in
  set_sim_join_rows (PList (map PList (map (fun row => map (cellv (p_lcols ex_c) row) ex_lp) ex_lsrc)))
                    (PList (map PList (map (fun row => map (cellv (p_rcols ex_c) row) ex_rp) ex_rsrc)))
      (l_proj ex_c) (r_proj ex_c)
      (PStr "id") (PStr "rid") (PStr "s") (PStr "t") (PStr "JACCARD") (ft ex_p) (PStr ">=") (PBool true)
      (l_out ex_c) (r_out ex_c) (PStr "l_") (PStr "r_") (PBool true) (PBool false) (PInt 0)
      ex_tokenize ex_sim.
Eval vm_compute in
  option_map (map (spec_row ex_c ex_lsrc ex_rsrc))
    (set_sim_join_core ex_p ">=" true
       (map (fun row => ex_toks (cellv (p_lcols ex_c) row "s")) ex_lsrc)
       (map (fun row => ex_toks (cellv (p_rcols ex_c) row "t")) ex_rsrc)).

Print Assumptions ex_refines.
