(* The GENERATED PositionFilter._filter_tables_split (Gen/JoinGen.v:
   position_filter_tables_split_rows) refines Joins.filter_tables_core KPosition.
   (a) position_filter_rows_fold: the generated function as an explicit list of rows in emission
       order; (b) position_filter_tables_split_rows_refines: up to a Permutation exactly the rows of
       the model's triples; header = the generated header.  Formulas opaque (formulas_ok).
   Axiom-free.                                                                            *)
From Coq Require Import ZArith Bool List String Lia Permutation.
From SSJ Require Import F64 PyNum FilterUtilsGen HelperGen TokenOrderingGen ValidationGen IndexGen JoinGen
     TokenOrdering Measures Filters Joins Projection ProjSpec ProjectionFacts OrderingFacts OrderingGenFacts
     IndexPyFacts IndexBuildFacts IndexProbeFacts IndexRefine IndexInverted IndexPrefix IndexSize IndexGlue
     JoinGenFacts JoinGenLoop JoinRefine SplitRefineBase SplitRefineFilterBase.
Import ListNotations.
Open Scope Z_scope.

(* the candidate dict of PositionFilter.find_candidates over the index built with cache_tokens=False *)
Definition pf_cands (p : fparams) (he : bool) (Lo : list (list Z)) (y : list Z) : list (Z * Z) :=
  let a := build_abs p he false Lo in
  probe_abs p (b_idx a) (b_sizes a) (b_min a) (b_max a) y
            (zint (g_lb p (len y))) (zint (g_ub p (len y))) (zint (g_pl p (len y))).
Definition pf_pos (kv : Z * Z) : bool := 0 <? snd kv.
Definition pf_keys (p : fparams) (he : bool) (Lo : list (list Z)) (y : list Z) : list Z :=
  map fst (filter pf_pos (pf_cands p he Lo y)).
Definition pf_cb (p : fparams) (he : bool) (Lo : list (list Z)) (y : list Z) (c : nat) : bool :=
  0 <? cval (pf_cands p he Lo y) (Z.of_nat c).
Definition pf_hits (kv : Z * Z) : list (Z * pyval) := if 0 <? snd kv then [(fst kv, PNone)] else [].

Lemma pf_hits_keys (d : list (Z * Z)) :
  flat_map pf_hits d = map (fun c => (c, PNone)) (map fst (filter pf_pos d)).
Proof.
  induction d as [|[c v] d IH]; cbn [flat_map filter]; [reflexivity|].
  unfold pf_hits at 1, pf_pos at 1. cbn [fst snd]. destruct (0 <? v); cbn [map app fst]; now rewrite IH.
Qed.

Section Position.
  Variables (p : fparams) (ae : bool) (bound : Z).
  Variables (lrows rrows : list (list pyval)).
  Variables (lcolumns rcolumns lkeya rkeya lfa rfa louta routa lpre rpre showp : pyval).
  Variables (ki ji kj jj : nat) (li ri : list nat) (has : bool) (hdr : list pyval).
  Variables (tokenize : pyval -> pyval) (tkL tkR : list pyval -> list Z).
  Let L := map tkL lrows.
  Let R := map tkR rrows.
  Let all := (List.concat L ++ List.concat R)%list.
  Let xof (r : list pyval) := order all (tkL r).
  Let yof (r : list pyval) := order all (tkR r).
  Let Lo := map xof lrows.
  Let he := f_he p ae.
  Let ordering := PDict (ordering_dict all).

  Hypothesis Hlk : py_index lcolumns lkeya = natpy ki.
  Hypothesis Hlj : py_index lcolumns lfa = natpy ji.
  Hypothesis Hlo : find_output_attribute_indices lcolumns louta = PList (map natpy li).
  Hypothesis Hrk : py_index rcolumns rkeya = natpy kj.
  Hypothesis Hrj : py_index rcolumns rfa = natpy jj.
  Hypothesis Hro : find_output_attribute_indices rcolumns routa = PList (map natpy ri).
  Hypothesis Hhas : py_or (py_is_not_none louta) (py_is_not_none routa) = PBool has.
  Hypothesis Hnohas : has = false -> li = [] /\ ri = [].
  Hypothesis Hhdr : get_output_header_from_tables lkeya rkeya louta routa lpre rpre = PList hdr.
  Hypothesis Hlrows : forall r, In r lrows -> cols_ok ki ji li r.
  Hypothesis Hrrows : forall r, In r rrows -> cols_ok kj jj ri r.
  Hypothesis HtokL : forall r, In r lrows -> tokenize (nth ji r PNone) = pints (tkL r).
  Hypothesis HtokR : forall r, In r rrows -> tokenize (nth jj r PNone) = pints (tkR r).
  (* formulas total on the sizes that occur *)
  Hypothesis Hf : formulas_ok p bound.
  Hypothesis HsL : forall r, In r lrows -> len (tkL r) < bound.
  Hypothesis HsR : forall r, In r rrows -> len (tkR r) < bound.

  Let a := build_abs p he false Lo.

  Lemma pf_len_y r : In r rrows -> 0 <= len (yof r) < bound.
  Proof. exact (ft_len_y bound lrows rrows tkL tkR HsR r). Qed.
  Lemma pf_plL : forall x, In x Lo -> exists k, g_pl p (len x) = PInt k.
  Proof. exact (ft_plL p bound lrows rrows tkL tkR Hf HsL). Qed.
  Lemma pf_lrow_ok : Forall2 (IndexBuildFacts.row_ok (natpy ji) ordering tokenize) (map PList lrows) Lo.
  Proof. exact (ft_lrow_ok lrows rrows ki ji li tokenize tkL tkR Hlrows HtokL). Qed.

  Lemma pf_build_post : forall w e, In e (idx_get (b_idx a) w) -> 0 <= fst e < len (b_sizes a).
  Proof.
    intros w e He. unfold a in *. rewrite build_postings in He. rewrite build_sizes.
    apply posts_from_rows in He. unfold nrows in He. unfold len. rewrite map_length. lia.
  Qed.

  Lemma pf_build_ot y lb ub :
    (forall s, 0 <= s -> lb <= s <= ub -> num_of (g_ot p s (len y)) <> None) ->
    forall s, Z.max lb (b_min a) <= s <= Z.min ub (b_max a) -> num_of (g_ot p s (len y)) <> None.
  Proof.
    intros Hot s Hs.
    assert (Hd : Lo = [] \/ Lo <> []) by (destruct Lo; [left; reflexivity | right; discriminate]).
    destruct Hd as [Eo|Hne].
    - exfalso. destruct (build_min_max_empty p he false Lo Eo) as [Emin Emax].
      unfold a in Hs. rewrite Emin, Emax in Hs. unfold maxsizeZ in Hs. lia.
    - apply Hot; [|lia].
      assert (0 <= b_min a); [|lia].
      unfold a. rewrite build_min. apply fold_min_nonneg; [unfold maxsizeZ; lia|].
      intros n Hn. apply in_map_iff in Hn. destruct Hn as (x & <- & _). unfold len. lia.
  Qed.

  (* the candidate dict for a right row: keys, values *)
  Lemma pf_row (rrow : list pyval) : In rrow rrows ->
    position_filter_find_candidates (PStr (fm p)) (ft p) (pints (yof rrow)) (idx_repr (b_idx a))
      (pints (b_sizes a)) (PInt (b_min a)) (PInt (b_max a)) (PInt (fq p))
    = PDict (drepr PInt (pf_cands p he Lo (yof rrow))) /\
    NoDup (map fst (pf_cands p he Lo (yof rrow))) /\
    (forall c, In c (map fst (pf_cands p he Lo (yof rrow))) -> 0 <= c < Z.of_nat (List.length lrows)) /\
    forall c, (c < List.length Lo)%nat ->
      pos_cand p (nth c Lo []) (yof rrow) = Some (cval (pf_cands p he Lo (yof rrow)) (Z.of_nat c)).
  Proof.
    intros Hin. set (y := yof rrow).
    destruct (Hf (len y) (pf_len_y rrow Hin)) as (lb & ub & k & Hlb & Hub & Hpl & Hot).
    assert (Ed : pf_cands p he Lo y = probe_abs p (b_idx a) (b_sizes a) (b_min a) (b_max a) y lb ub k).
    { unfold pf_cands. cbv zeta. fold a. rewrite Hlb, Hub, Hpl. reflexivity. }
    destruct (probe_abs_good p (b_idx a) (b_sizes a) (b_min a) (b_max a) y lb ub k pf_build_post) as [Hnd Hk].
    rewrite Ed. split; [|split; [exact Hnd | split]].
    - apply find_candidates_eq; try assumption; [apply pf_build_ot; exact Hot | apply pf_build_post].
    - intros c Hc. specialize (Hk c Hc). unfold a in Hk. rewrite build_sizes in Hk.
      unfold len, Lo in Hk. rewrite !map_length in Hk. exact Hk.
    - intros c Hc. unfold pos_cand.
      destruct (pf_plL (nth c Lo [])) as [kx Hkx]; [apply nth_In; exact Hc|].
      fold y. rewrite Hkx, Hpl, !slice0_PInt. f_equal. unfold a. rewrite build_sizes.
      rewrite (probe_abs_refines p Lo y (b_min (build_abs p he false Lo)) (b_max (build_abs p he false Lo))
                 lb ub k Hlb Hub (build_min_max_bounds p he false Lo) (b_idx (build_abs p he false Lo))
                 (build_postings p he false Lo) c Hc).
      unfold plen. rewrite Hkx. reflexivity.
  Qed.

  Definition Ipf_outer (acc : list (list pyval))
    (s : pyval * (pyval * (pyval * (pyval * (pyval * (pyval * (pyval * (pyval * (pyval * pyval))))))))) : Prop :=
    exists t1 t2 t3 t4 t5 t7 t8 t9,
      s = (PNone, (t1, (t2, (t3, (t4, (t5, (PList (map PList acc), (t7, (t8, t9))))))))).

  Definition pf_rows_of (rrow : list pyval) : list (list pyval) :=
    map (fun cs : Z * pyval => out_row false ki kj li ri lrows (fst cs) rrow (snd cs))
        (f_row_pairs he Lo (pf_keys p he Lo (yof rrow)) (yof rrow)).

  Theorem position_filter_rows_fold :
    position_filter_tables_split_rows (PList (map PList lrows)) (PList (map PList rrows)) lcolumns rcolumns
      lkeya rkeya lfa rfa (PStr (fm p)) (ft p) (PBool ae) louta routa lpre rpre showp (PInt (fq p)) tokenize
    = PTuple [PList (map PList (List.concat (map pf_rows_of rrows))); PList hdr].
  Proof.
    unfold position_filter_tables_split_rows.
    rewrite Hlk, Hlj. cbv zeta. rewrite Hlo, Hrk, Hrj, Hro.
    repeat (rewrite bindx_ok by reflexivity).
    rewrite (ordering_eq p lrows rrows ki ji kj jj li ri tokenize tkL tkR Hlrows Hrrows HtokL HtokR).
    fold L R all ordering. rewrite (bindx_ok ordering) by reflexivity.
    rewrite handle_empty_eq. fold he. rewrite (bindx_ok (PBool he)) by reflexivity.
    rewrite (position_index_build_eq p (natpy ji) ordering tokenize (map PList lrows) Lo he false
               pf_lrow_ok pf_plL).
    fold a. unfold build_result.
    destruct (getitem_tuple5 (idx_repr (b_idx a)) (pints (b_sizes a)) (PInt (b_min a)) (PInt (b_max a))
                (PDict [PTuple [PStr "cached_tokens"%string; PList (map pints (b_cached a))];
                        PTuple [PStr "empty_records"%string; pints (b_empty a)]]))
      as (G0 & G1 & G2 & G3 & G4).
    rewrite (bindx_ok (PTuple _)) by reflexivity.
    rewrite G0, G1, G2, G3, G4.
    destruct (getitem_cached (PList (map pints (b_cached a))) (pints (b_empty a))) as [C0 _].
    repeat (rewrite bindx_ok by reflexivity).
    rewrite C0.
    repeat (rewrite bindx_ok by reflexivity).
    rewrite Hhas. rewrite (bindx_ok (PBool has)) by reflexivity.
    match goal with |- context [py_for (PList (map PList rrows)) ?r ?f ?b ?s0] =>
      pose proof (py_for_inv _ _ _ PList Ipf_outer r f b
                    (fun acc rrow => (acc ++ pf_rows_of rrow)%list) rrows s0 []) as HI end.
    lapply HI; [clear HI; intros HI|].
    2:{ unfold Ipf_outer. do 8 eexists. reflexivity. }
    lapply HI; [clear HI; intros HI|].
    2:{ intros acc s (t1 & t2 & t3 & t4 & t5 & t7 & t8 & t9 & ->). reflexivity. }
    lapply HI; [clear HI; intros HI|].
    - destruct HI as (t1 & t2 & t3 & t4 & t5 & t7 & t8 & t9 & E). rewrite E. clear E.
      cbv beta iota. cbn [bindx]. rewrite Hhdr. rewrite (bindx_ok (PList hdr)) by reflexivity.
      rewrite fold_left_app_map. cbn [app]. reflexivity.
    - clear HI. intros acc s rrow Hin (t1 & t2 & t3 & t4 & t5 & t7 & t8 & t9 & ->).
      cbv beta iota.
      destruct (join_cell_ok _ _ _ _ (Hrrows rrow Hin)) as [Ecell Hcell].
      rewrite (bindx_ok (PList rrow)) by reflexivity.
      rewrite Ecell. rewrite (bindx_ok (nth jj rrow PNone)) by exact Hcell.
      rewrite (bindx_ok (tokenize _)) by (rewrite (HtokR rrow Hin); reflexivity).
      unfold ordering, all, L, R.
      rewrite (ordered_R lrows rrows jj tokenize tkL tkR HtokR rrow Hin).
      fold L R all ordering. fold (yof rrow).
      rewrite (bindx_ok (pints _)) by reflexivity.
      rewrite py_len_pints, py_eq_int_val, py_and_bools.
      rewrite (bindx_ok (PBool _)) by reflexivity. cbn [py_truth].
      unfold pf_rows_of, f_row_pairs.
      destruct (he && (len (yof rrow) =? 0)) eqn:Ebr.
      + (* handle_empty and no tokens: the cached empty left records *)
        assert (Ehe : he = true) by (destruct he; [reflexivity | discriminate Ebr]).
        unfold a. rewrite build_empty. rewrite Ehe. unfold pints at 1.
        match goal with |- context [py_for (PList (map PInt ?l)) ?r ?f ?b ?s0] =>
          pose proof (py_for_inv _ _ _ PInt Irows r f b
                        (fun acc' c => (acc' ++ [out_row false ki kj li ri lrows c rrow PNone])%list)
                        l s0 acc) as HI end.
        lapply HI; [clear HI; intros HI|].
        2:{ unfold Irows. eexists. reflexivity. }
        lapply HI; [clear HI; intros HI|].
        2:{ intros acc' s (u & ->). reflexivity. }
        lapply HI; [clear HI; intros HI|].
        * destruct HI as (u & E). rewrite E. clear E. cbv beta iota. cbn [bindx].
          rewrite fold_left_snoc_map, map_map. cbn [fst snd].
          unfold Ipf_outer. do 8 eexists. reflexivity.
        * clear HI. intros acc' s c Hc (u & ->). cbv beta iota. cbn [bindx].
          apply empty_from_bounds in Hc. unfold nrows, Lo in Hc. rewrite map_length in Hc.
          rewrite (getitem_rows lrows c) by lia.
          assert (Hlc : cols_ok ki ji li (nth (Z.to_nat c) lrows [])) by (apply Hlrows, nth_In; lia).
          pose proof (Hrrows rrow Hin) as Hrc.
          emit_row_noscore Hlc Hrc Hnohas has ki kj li ri ji jj ltac:(eexists; reflexivity).
      + (* candidates of the position filter *)
        destruct (pf_row rrow Hin) as (Efc & _ & Hkeys & _).
        rewrite Efc. rewrite (bindx_ok (PDict _)) by reflexivity.
        rewrite py_items_dict. unfold drepr.
        unfold pf_keys. rewrite <- pf_hits_keys.
        set (h := fun cs : Z * pyval => out_row false ki kj li ri lrows (fst cs) rrow (snd cs)).
        match goal with |- context [py_for (PList (map ?f ?l)) ?r ?fl ?b ?s0] =>
          pose proof (py_for_inv _ _ _ f Irows r fl b
                        (fun acc' kv => (acc' ++ map h (pf_hits kv))%list) l s0 acc) as HI end.
        lapply HI; [clear HI; intros HI|].
        2:{ unfold Irows. eexists. reflexivity. }
        lapply HI; [clear HI; intros HI|].
        2:{ intros acc' s (u & ->). reflexivity. }
        lapply HI; [clear HI; intros HI|].
        * destruct HI as (u & E). rewrite E. clear E. cbv beta iota. cbn [bindx].
          rewrite (fold_left_app_map (fun kv => map h (pf_hits kv))).
          rewrite <- map_flat_map.
          unfold Ipf_outer. do 8 eexists. reflexivity.
        * clear HI. intros acc' s [c v] Hkv (u & ->). cbv beta iota. cbn [bindx fst snd].
          destruct (getitem_pair (PInt c) (PInt v)) as [P0 P1]. rewrite P0, P1. cbn [bindx].
          rewrite py_gt_int_val. cbn [bindx py_truth].
          assert (Hc : 0 <= c < Z.of_nat (List.length lrows)) by (apply Hkeys; apply (in_map fst _ _ Hkv)).
          unfold pf_hits. cbn [fst snd].
          destruct (0 <? v) eqn:Ev.
          2:{ cbn [map]. rewrite app_nil_r. cbn [bindx]. eexists. reflexivity. }
          cbn [map]. unfold h at 1. cbn [fst snd].
          rewrite (getitem_rows lrows c) by lia.
          assert (Hlc : cols_ok ki ji li (nth (Z.to_nat c) lrows [])) by (apply Hlrows, nth_In; lia).
          pose proof (Hrrows rrow Hin) as Hrc.
          emit_row_noscore Hlc Hrc Hnohas has ki kj li ri ji jj ltac:(eexists; reflexivity).
  Qed.

  (* ---------------------------------------------------------------- refinement *)
  Lemma pf_row_perm (j : nat) (rrow : list pyval) : In rrow rrows ->
    Permutation (map (fun cs : Z * pyval => (Z.to_nat (fst cs), j, snd cs))
                     (f_row_pairs he Lo (pf_keys p he Lo (yof rrow)) (yof rrow)))
                (f_model_row he Lo (pf_cb p he Lo (yof rrow)) j (yof rrow)).
  Proof.
    intros Hin. apply f_row_perm. intros _.
    destruct (pf_row rrow Hin) as (_ & Hnd & Hkeys & _).
    assert (El : List.length Lo = List.length lrows) by (unfold Lo; apply map_length).
    set (d := pf_cands p he Lo (yof rrow)) in *. unfold pf_keys. fold d.
    assert (Hsub : forall c, In c (map fst (filter pf_pos d)) -> In c (map fst d)).
    { intros c Hc. apply in_map_iff in Hc. destruct Hc as (kv & <- & Hkv).
      apply filter_In in Hkv. apply in_map. tauto. }
    split; [|split].
    - clear -Hnd. induction d as [|[c v] d IH]; cbn [filter map]; [constructor|].
      cbn [map fst] in Hnd. inversion Hnd as [|? ? Hn Hnd']; subst.
      destruct (pf_pos (c, v)); [|apply IH; exact Hnd'].
      cbn [map fst]. constructor; [|apply IH; exact Hnd'].
      intros Hc. apply Hn. apply in_map_iff in Hc. destruct Hc as (kv & E & Hkv).
      apply filter_In in Hkv. apply in_map_iff. exists kv. tauto.
    - intros c Hc. rewrite El. apply Hkeys, Hsub, Hc.
    - intros c Hc. unfold pf_cb. fold d. unfold cval. split.
      + destruct (aget d (Z.of_nat c)) as [v|] eqn:E; [|discriminate].
        intros Hv. apply aget_in in E. apply in_map_iff. exists (Z.of_nat c, v).
        split; [reflexivity|]. apply filter_In. split; [exact E | exact Hv].
      + intros Hk. apply in_map_iff in Hk. destruct Hk as ([c' v] & Ec & Hkv). cbn [fst] in Ec. subst c'.
        apply filter_In in Hkv. destruct Hkv as [Hkv Hv].
        rewrite (aget_nodup d _ v Hnd Hkv). exact Hv.
  Qed.

  Theorem position_filter_tables_split_rows_refines :
    exists (T : list triple) (rows : list (list pyval)),
      filter_tables_core KPosition p ae L R = Some T /\
      position_filter_tables_split_rows (PList (map PList lrows)) (PList (map PList rrows)) lcolumns rcolumns
        lkeya rkeya lfa rfa (PStr (fm p)) (ft p) (PBool ae) louta routa lpre rpre showp (PInt (fq p)) tokenize
      = PTuple [PList (map PList rows); PList hdr] /\
      Permutation rows (map (triple_row false lrows rrows ki kj li ri) T) /\
      forall tr, In tr T -> (fst (fst tr) < List.length lrows)%nat /\ (snd (fst tr) < List.length rrows)%nat.
  Proof.
    assert (El : List.length Lo = List.length lrows) by (unfold Lo; apply map_length).
    eexists. eexists. split; [|split; [exact position_filter_rows_fold | split]].
    - rewrite (f_model_eq KPosition p ae L R (pf_cb p he Lo)).
      + fold all. replace (map (order all) L) with Lo by (unfold Lo, L, xof; now rewrite map_map).
        unfold R. rewrite enumerate_map, flat_map_map. cbn [fst snd]. fold he. reflexivity.
      + fold all. replace (map (order all) L) with Lo by (unfold Lo, L, xof; now rewrite map_map).
        intros yraw Hy _ c Hc. unfold R in Hy. apply in_map_iff in Hy. destruct Hy as (rrow & <- & Hin).
        destruct (pf_row rrow Hin) as (_ & _ & _ & Hpc). fold (yof rrow).
        unfold filter_cand. rewrite (Hpc c Hc). reflexivity.
    - unfold pf_rows_of.
      apply (chunk_perm false ki kj li ri lrows rrows yof
               (fun y => f_row_pairs he Lo (pf_keys p he Lo y) y)
               (fun j y => f_model_row he Lo (pf_cb p he Lo y) j y)).
      intros j rrow Hin. apply pf_row_perm. exact Hin.
    - apply (chunk_bounds lrows rrows yof (fun j y => f_model_row he Lo (pf_cb p he Lo y) j y)).
      intros j y tr Htr. unfold f_model_row in Htr.
      destruct (he && (len y =? 0)); apply in_flat_map in Htr; destruct Htr as (x & Hx & Htr).
      + destruct (len (snd x) =? 0); [|destruct Htr]. destruct Htr as [<-|[]]. cbn [fst snd]. split; [|reflexivity].
        destruct x as [c xs]. apply in_combine_l in Hx. apply in_seq in Hx. cbn [fst]. lia.
      + apply in_seq in Hx. destruct (pf_cb p he Lo y x); [|destruct Htr].
        destruct Htr as [<-|[]]. cbn [fst snd]. split; [lia | reflexivity].
  Qed.
End Position.

Print Assumptions position_filter_rows_fold.
Print Assumptions position_filter_tables_split_rows_refines.
