(* The end-to-end theorems of FilterWrapperRefine.v with the formula hypothesis `formulas_ok p bound`
   discharged for the three classes of measures the filters support:
     * JACCARD / COSINE / DICE with a float threshold t, env_t t (2^-30 <= t <= 1), token counts below
       size_bound = 2^20   (IndexGlueArith.formulas_ok_jcd: binary64 reasoning, Reals axioms),
     * OVERLAP with an integer threshold T, any bound on the token counts,
     * EDIT_DISTANCE with an integer threshold tau >= 0 and q >= 1, any bound.
   Stated once, for "any of the three generated filter_tables definitions": `flt_e2e K call`.       *)
From Coq Require Import ZArith Bool List String Lia Permutation.
From SSJ Require Import F64 PyNum FilterUtilsGen HelperGen ValidationGen
     TokenOrdering Measures JoinSpec Filters Joins Api Projection ProjSpec IndexPyFacts ProjectionFacts
     IndexGlue IndexGlueArith OverlapMeasure EditArith
     Frame WrapperGen FilterWrapperGen WrapperRefineFrame WrapperRefineMissing WrapperRefineCore
     WrapperBody WrapperApiLink WrapperEnd FilterWrapperRefine.
Import ListNotations.
Open Scope Z_scope.

Section Closed.
  Variables (c : pcase) (op : string) (ae am : bool) (njobs cpus : Z).
  Variables (lsrc rsrc : list (list pyval)) (showp : pyval).
  Variables (tokenize : pyval -> pyval) (toks : pyval -> list Z) (kz : pyval -> Z).

  (* everything but the formulas and the size bound *)
  Definition flt_base_hyps : Prop :=
    well_formed c /\ p_score c = false /\
    (forall row, In row lsrc -> List.length row = List.length (p_lcols c) /\ ProjSpec.row_ok row) /\
    (forall row, In row rsrc -> List.length row = List.length (p_rcols c) /\ ProjSpec.row_ok row) /\
    (forall row, In row (lpresent c lsrc) ->
       tokenize (cellv (p_lcols c) row (p_ljoin c)) = pints (toks (cellv (p_lcols c) row (p_ljoin c)))) /\
    (forall row, In row (rpresent c rsrc) ->
       tokenize (cellv (p_rcols c) row (p_rjoin c)) = pints (toks (cellv (p_rcols c) row (p_rjoin c)))) /\
    is_exc (validate_output_attrs (py_opt_strs (p_lout c)) (py_strs (p_lcols c))
                                  (py_opt_strs (p_rout c)) (py_strs (p_rcols c))) = false /\
    ~ In "_id"%string (mv_header c) /\
    Z.of_nat (List.length (rpresent c rsrc)) < 2^31.
  Definition sizes_below (bound : Z) : Prop :=
    (forall row, In row (lpresent c lsrc) -> len (toks (cellv (p_lcols c) row (p_ljoin c))) < bound) /\
    (forall row, In row (rpresent c rsrc) -> len (toks (cellv (p_rcols c) row (p_rjoin c))) < bound).

  (* the three end-to-end statements for parameters p *)
  Definition flt_e2e_all (p : fparams) : Prop :=
    end_to_end_chunks c am lsrc rsrc toks (fun _ => []) kz
      (flt_jcase c p op ae am njobs cpus lsrc rsrc toks kz KSize)
      (size_call c p ae am njobs cpus lsrc rsrc showp tokenize) /\
    end_to_end_chunks c am lsrc rsrc toks (fun _ => []) kz
      (flt_jcase c p op ae am njobs cpus lsrc rsrc toks kz KPrefix)
      (prefix_call c p ae am njobs cpus lsrc rsrc showp tokenize) /\
    end_to_end_chunks c am lsrc rsrc toks (fun _ => []) kz
      (flt_jcase c p op ae am njobs cpus lsrc rsrc toks kz KPosition)
      (position_call c p ae am njobs cpus lsrc rsrc showp tokenize).

  Lemma flt_e2e_of p bound : flt_base_hyps -> formulas_ok p bound -> sizes_below bound -> flt_e2e_all p.
  Proof.
    intros (Hwf & Hns & Hl & Hr & HtL & HtR & Hvo & Hid & Hn) Hf (HsL & HsR). repeat split.
    - exact (size_filter_tables_rows_end_to_end c p op ae am bound njobs cpus lsrc rsrc showp tokenize toks kz
               Hwf Hns Hl Hr HtL HtR Hvo Hid Hf HsR Hn).
    - exact (prefix_filter_tables_rows_end_to_end c p op ae am bound njobs cpus lsrc rsrc showp tokenize toks kz
               Hwf Hns Hl Hr HtL HtR Hvo Hid Hf HsL HsR Hn).
    - exact (position_filter_tables_rows_end_to_end c p op ae am bound njobs cpus lsrc rsrc showp tokenize toks kz
               Hwf Hns Hl Hr HtL HtR Hvo Hid Hf HsL HsR Hn).
  Qed.

  Theorem filter_tables_rows_end_to_end_jcd (m : string) (t : f64) (q : Z) :
    is_jcd m = true -> env_t t = true -> flt_base_hyps -> sizes_below size_bound ->
    flt_e2e_all {| fm := m; ft := PFloat t; fq := q |}.
  Proof. intros Hm Ht Hb Hs. apply (flt_e2e_of _ size_bound Hb); [apply formulas_ok_jcd; assumption | exact Hs]. Qed.

  Theorem filter_tables_rows_end_to_end_overlap (T q bound : Z) :
    flt_base_hyps -> sizes_below bound -> flt_e2e_all (ovp T q).
  Proof. intros Hb Hs. apply (flt_e2e_of _ bound Hb); [apply formulas_ok_overlap | exact Hs]. Qed.

  Theorem filter_tables_rows_end_to_end_ed (q tau bound : Z) :
    0 <= tau -> 1 <= q -> flt_base_hyps -> sizes_below bound -> flt_e2e_all (edp q tau).
  Proof. intros Ht Hq Hb Hs. apply (flt_e2e_of _ bound Hb); [apply formulas_ok_ed; assumption | exact Hs]. Qed.
End Closed.

Print Assumptions filter_tables_rows_end_to_end_jcd.
Print Assumptions filter_tables_rows_end_to_end_overlap.
Print Assumptions filter_tables_rows_end_to_end_ed.
