(* (C) the overlap-coefficient join core `ovc_core` on token sets: membership characterisation,
       agreement of the reported score with `raw_score "OVERLAP_COEFFICIENT"`, completeness for
       positive thresholds;
   (D) size / prefix / position filters under measure "OVERLAP" with an integer threshold T >= 1
       never drop (pair level) and always propose (table level) a pair of sets whose overlap
       is >= T (C04 for OVERLAP).
   Floats are only inspected by constructor (zero / nan / infinity / finite): no real-number
   reasoning, every theorem here is closed under the global context.                     *)
From Coq Require Import ZArith Bool List String Lia Sorted Permutation SpecFloat.
From SSJ Require Import F64 PyNum FilterUtilsGen HelperGen TokenOrdering Measures Filters Joins Api
                        JoinSpec Prefix PyFacts PositionSafe PrefixSets OrderingFacts OverlapFacts.
Import ListNotations.
Open Scope string_scope.
Open Scope Z_scope.

(* ====================================================================== (C) *)

Lemma py_lt_int_val a b : py_lt (PInt a) (PInt b) = PBool (a <? b).
Proof.
  unfold py_lt, py_ord, strict2, ord_cmp, num_of, num_cmp.
  destruct (Z.compare_spec a b); destruct (Z.ltb_spec a b); try reflexivity; lia.
Qed.
Lemma py_gt_int_val a b : py_gt (PInt a) (PInt b) = PBool (b <? a).
Proof.
  unfold py_gt, py_ord, strict2, ord_cmp, num_of, num_cmp.
  destruct (Z.compare_spec a b); destruct (Z.ltb_spec b a); try reflexivity; lia.
Qed.

Lemma py_min_int a b : py_min (PInt a) (PInt b) = PInt (Z.min a b).
Proof.
  unfold py_min. rewrite py_lt_int_val. simpl.
  destruct (Z.ltb_spec b a); f_equal; lia.
Qed.
Lemma py_max_int a b : py_max (PInt a) (PInt b) = PInt (Z.max a b).
Proof.
  unfold py_max. rewrite py_gt_int_val. simpl.
  destruct (Z.ltb_spec a b); f_equal; lia.
Qed.

(* float(o) / float(n) as the join computes it *)
Definition ovc_score (o n : Z) : pyval := py_truediv (py_float (PInt o)) (py_float (PInt n)).

Lemma ovc_model_score o a b :
  py_truediv (py_float (PInt o)) (py_float (py_min (PInt a) (PInt b))) = ovc_score o (Z.min a b).
Proof. rewrite py_min_int. reflexivity. Qed.

(* the library's overlap coefficient of two SETS is the expression the join evaluates *)
Theorem raw_score_ovc x y : NoDup x -> NoDup y ->
  raw_score "OVERLAP_COEFFICIENT" x y = ovc_score (overlap_sets x y) (Z.min (len y) (len x)).
Proof.
  intros Hx Hy. unfold raw_score. rewrite !dedup_id by assumption.
  rewrite (Z.min_comm (len y) (len x)). reflexivity.
Qed.
Lemma reported_score_ovc x y :
  reported_score "OVERLAP_COEFFICIENT" x y = raw_score "OVERLAP_COEFFICIENT" x y.
Proof. reflexivity. Qed.

(* ---- the core as a grid of cells ---- *)
Definition grid (cell : nat -> list Z -> nat -> list Z -> list triple) (L R : list (list Z)) :=
  flat_map (fun jy : nat * list Z =>
     flat_map (fun cx : nat * list Z => cell (fst cx) (snd cx) (fst jy) (snd jy)) (enumerate L))
     (enumerate R).

Lemma grid_In cell L R b :
  In b (grid cell L R) <->
  exists c x j y, nth_error L c = Some x /\ nth_error R j = Some y /\ In b (cell c x j y).
Proof.
  unfold grid. rewrite in_flat_map_enum. split.
  - intros [j [y [Hy Hin]]]. apply in_flat_map_enum in Hin. destruct Hin as [c [x [Hx Hin]]].
    exists c, x, j, y. auto.
  - intros [c [x [j [y [Hx [Hy Hin]]]]]]. exists j, y. split; [exact Hy|].
    apply in_flat_map_enum. exists c, x. auto.
Qed.

Definition ovc_cell (t : pyval) (op : string) (ae : bool) (c : nat) (x : list Z) (j : nat)
           (y : list Z) : list triple :=
  if ae && (len y =? 0) then (if len x =? 0 then [(c, j, PFloat f_one)] else [])
  else
    let o := overlap_count x y in
    if 0 <? o then
      let s := py_truediv (py_float (PInt o)) (py_float (py_min (PInt (len y)) (PInt (len x)))) in
      if cmp_op op s t then [(c, j, s)] else []
    else [].

Lemma ovc_core_grid t op ae L R : ovc_core t op ae L R = Some (grid (ovc_cell t op ae) L R).
Proof.
  unfold ovc_core, grid. f_equal. apply flat_map_ext. intros [j y]. unfold ovc_cell.
  cbn [fst snd]. destruct (ae && (len y =? 0)); reflexivity.
Qed.

Lemma ovc_cell_shape t op ae c x j y :
  ovc_cell t op ae c x j y = [] \/ exists s, ovc_cell t op ae c x j y = [(c, j, s)].
Proof.
  unfold ovc_cell. destruct (ae && (len y =? 0)).
  - destruct (len x =? 0); [right; eexists; reflexivity|left; reflexivity].
  - cbv zeta. destruct (0 <? overlap_count x y); [|left; reflexivity].
    match goal with |- context [if ?b then _ else _] => destruct b end;
      [right; eexists; reflexivity|left; reflexivity].
Qed.

Lemma ovc_cell_In t op ae c x j y b : NoDup x -> NoDup y ->
  (In b (ovc_cell t op ae c x j y) <->
   (ae = true /\ x = [] /\ y = [] /\ b = (c, j, PFloat f_one)) \/
   (0 < overlap_sets x y /\
    b = (c, j, ovc_score (overlap_sets x y) (Z.min (len y) (len x))) /\
    cmp_op op (ovc_score (overlap_sets x y) (Z.min (len y) (len x))) t = true)).
Proof.
  intros Hndx Hndy. unfold ovc_cell. cbv zeta.
  rewrite (overlap_count_sets x y Hndx Hndy), ovc_model_score.
  set (o := overlap_sets x y). set (sc := ovc_score o (Z.min (len y) (len x))).
  assert (Hy0 : y = [] -> o = 0).
  { intros ->. unfold o. pose proof (overlap_sets_le_r x []) as H.
    pose proof (overlap_sets_nonneg x []) as H'. change (len []) with 0 in H. lia. }
  destruct (ae && (len y =? 0)) eqn:Eae.
  - apply andb_true_iff in Eae. destruct Eae as [Hae Hy]. apply len_zero_iff in Hy.
    destruct (len x =? 0) eqn:Ex.
    + apply len_zero_iff in Ex. split.
      * intros [<-|[]]. left. auto.
      * intros [[_ [_ [_ ->]]]|[Hpos _]]; [left; reflexivity|]. specialize (Hy0 Hy). lia.
    + split; [intros []|]. intros [[_ [Hx _]]|[Hpos _]].
      * apply len_zero_iff in Hx. congruence.
      * specialize (Hy0 Hy). lia.
  - split.
    + intros Hin. right.
      destruct (0 <? o) eqn:Epos; [|destruct Hin]. apply Z.ltb_lt in Epos.
      destruct (cmp_op op sc t) eqn:Ecmp; [|destruct Hin].
      destruct Hin as [<-|[]]. auto.
    + intros [[Hae [_ [Hy _]]]|[Hpos [-> Hcmp]]].
      * subst. simpl in Eae. discriminate.
      * apply Z.ltb_lt in Hpos. rewrite Hpos, Hcmp. left; reflexivity.
Qed.

Theorem ovc_core_spec t op ae L R res :
  rows_nodup L -> rows_nodup R ->
  ovc_core t op ae L R = Some res ->
  forall c j s,
    In (c, j, s) res <->
    exists x y, nth_error L c = Some x /\ nth_error R j = Some y /\
      ((ae = true /\ x = [] /\ y = [] /\ s = PFloat f_one) \/
       (0 < overlap_sets x y /\
        s = ovc_score (overlap_sets x y) (Z.min (len y) (len x)) /\
        cmp_op op s t = true)).
Proof.
  intros HL HR Hres c j s. rewrite ovc_core_grid in Hres. injection Hres as <-.
  rewrite grid_In. split.
  - intros [c' [x [j' [y [Hx [Hy Hin]]]]]].
    assert (Hndx : NoDup x) by (apply HL; eapply nth_error_In; exact Hx).
    assert (Hndy : NoDup y) by (apply HR; eapply nth_error_In; exact Hy).
    apply (ovc_cell_In t op ae c' x j' y _ Hndx Hndy) in Hin.
    destruct Hin as [[Hae [Hx0 [Hy0 Heq]]]|[Hpos [Heq Hcmp]]]; injection Heq as -> -> ->;
      exists x, y; (split; [exact Hx|]); (split; [exact Hy|]); [left|right]; auto.
  - intros [x [y [Hx [Hy Hcase]]]]. exists c, x, j, y. split; [exact Hx|]. split; [exact Hy|].
    assert (Hndx : NoDup x) by (apply HL; eapply nth_error_In; exact Hx).
    assert (Hndy : NoDup y) by (apply HR; eapply nth_error_In; exact Hy).
    apply (ovc_cell_In t op ae c x j y _ Hndx Hndy).
    destruct Hcase as [[Hae [Hx0 [Hy0 ->]]]|[Hpos [-> Hcmp]]]; [left|right]; auto.
Qed.

Theorem ovc_core_once t op ae L R res :
  ovc_core t op ae L R = Some res -> NoDup (map tkey res).
Proof.
  intros Hres. rewrite ovc_core_grid in Hres. injection Hres as <-.
  apply grid_keys_NoDup. apply ovc_cell_shape.
Qed.

(* ---- a zero overlap never satisfies >=, >, = against a positive threshold ---- *)
Definition pos_threshold (t : pyval) : Prop := cmp_op ">" t (PFloat (S754_zero false)) = true.

Lemma ovc_score_zero n :
  ovc_score 0 n = ZeroDivisionError \/ ovc_score 0 n = PFloat S754_nan \/
  exists s, ovc_score 0 n = PFloat (S754_zero s).
Proof.
  unfold ovc_score.
  change (py_float (PInt 0)) with (PFloat (S754_zero false)).
  change (py_float (PInt n)) with (PFloat (f_of_Z n)).
  generalize (f_of_Z n) as d. intros d. destruct d as [s|s| |s m e].
  - left. reflexivity.
  - right. right. exists (xorb false s). reflexivity.
  - right. left. reflexivity.
  - right. right. exists (xorb false s). reflexivity.
Qed.

Lemma cmp_op_lower_cases op a t : lower_op op ->
  cmp_op op a t = py_truth (py_ge a t) \/ cmp_op op a t = py_truth (py_gt a t) \/
  cmp_op op a t = py_truth (py_eq a t).
Proof. intros [-> | [-> | ->]]; [left|right; left|right; right]; reflexivity. Qed.

Lemma zero_vs_pos_threshold op s t : lower_op op -> pos_threshold t ->
  cmp_op op (PFloat (S754_zero s)) t = false.
Proof.
  intros Hop Ht. unfold pos_threshold, cmp_op in Ht.
  change (comp_op_map ">") with (Some py_gt) in Ht.
  destruct t as [k|f|str|b| |l|l|l|e]; try discriminate Ht.
  - (* int threshold *)
    assert (Hk : 0 < k).
    { unfold py_gt, py_ord, strict2, ord_cmp, num_of, num_cmp, cmp_Z_f, py_truth in Ht.
      destruct (Z.compare_spec k 0); try discriminate Ht. lia. }
    destruct Hop as [-> | [-> | ->]]; unfold cmp_op;
      [change (comp_op_map ">=") with (Some py_ge)|change (comp_op_map ">") with (Some py_gt)
      |change (comp_op_map "=") with (Some py_eq)];
      unfold py_ge, py_gt, py_eq, py_ord, strict2, ord_cmp, pv_eqb, num_of, num_cmp, cmp_Z_f,
             option_map, py_truth;
      destruct (Z.compare_spec k 0); try reflexivity; lia.
  - (* float threshold *)
    destruct f as [s'|s'| |s' m e]; try discriminate Ht.
    + destruct s'; [discriminate Ht|].
      destruct Hop as [-> | [-> | ->]]; reflexivity.
    + destruct s'; [discriminate Ht|].
      destruct Hop as [-> | [-> | ->]]; reflexivity.
  - (* bool threshold (True = 1) *)
    destruct b; [|discriminate Ht].
    destruct Hop as [-> | [-> | ->]]; reflexivity.
Qed.

Lemma ovc_zero_not_qualifies op n t : lower_op op -> pos_threshold t ->
  cmp_op op (ovc_score 0 n) t = false.
Proof.
  intros Hop Ht. destruct (ovc_score_zero n) as [E|[E|[s E]]]; rewrite E.
  - destruct Hop as [-> | [-> | ->]]; destruct t; reflexivity.
  - unfold pos_threshold, cmp_op in Ht. change (comp_op_map ">") with (Some py_gt) in Ht.
    destruct t as [k|f|str|b| |l|l|l|e]; try discriminate Ht;
      destruct Hop as [-> | [-> | ->]]; try reflexivity.
    all: destruct f; reflexivity.
  - apply zero_vs_pos_threshold; assumption.
Qed.

(* the thresholds the API accepts: any positive float, the integer 1 *)
Lemma pos_threshold_float tf : fltb (S754_zero false) tf = true -> pos_threshold (PFloat tf).
Proof.
  unfold fltb, SFltb, pos_threshold. intros H.
  destruct tf as [s|s| |s m e]; simpl in H; try discriminate H; destruct s; try discriminate H;
    reflexivity.
Qed.
Lemma pos_threshold_int k : 0 < k -> pos_threshold (PInt k).
Proof.
  intros H. unfold pos_threshold, cmp_op. change (comp_op_map ">") with (Some py_gt).
  unfold py_gt, py_ord, strict2, ord_cmp, num_of, num_cmp, cmp_Z_f, py_truth.
  destruct (Z.compare_spec k 0); try reflexivity; lia.
Qed.

(* C01 for OVERLAP_COEFFICIENT: every qualifying pair of present, not-both-empty rows is
   reported with its true score *)
Theorem ovc_core_complete t op ae L R res c j x y :
  rows_nodup L -> rows_nodup R -> lower_op op -> pos_threshold t ->
  ovc_core t op ae L R = Some res ->
  nth_error L c = Some x -> nth_error R j = Some y ->
  qualifies "OVERLAP_COEFFICIENT" op t x y = true ->
  In (c, j, raw_score "OVERLAP_COEFFICIENT" x y) res.
Proof.
  intros HL HR Hop Ht Hres Hx Hy Hq.
  assert (Hndx : NoDup x) by (apply HL; eapply nth_error_In; exact Hx).
  assert (Hndy : NoDup y) by (apply HR; eapply nth_error_In; exact Hy).
  unfold qualifies in Hq. apply andb_true_iff in Hq. destruct Hq as [Hq _].
  rewrite (raw_score_ovc x y Hndx Hndy) in *.
  apply (ovc_core_spec t op ae L R res HL HR Hres). exists x, y.
  split; [exact Hx|]. split; [exact Hy|]. right.
  split; [|split; [reflexivity|exact Hq]].
  pose proof (overlap_sets_nonneg x y) as Hnn.
  destruct (Z.eq_dec (overlap_sets x y) 0) as [E|E]; [|lia].
  rewrite E in Hq. rewrite (ovc_zero_not_qualifies op _ t Hop Ht) in Hq. discriminate.
Qed.

(* C02: a reported pair is a pair of present rows; unless it is the both-empty pair admitted by
   allow_empty, it satisfies the comparison and carries the library's score *)
Theorem ovc_core_sound t op ae L R res c j s :
  rows_nodup L -> rows_nodup R ->
  ovc_core t op ae L R = Some res -> In (c, j, s) res ->
  exists x y, nth_error L c = Some x /\ nth_error R j = Some y /\
    ((ae = true /\ x = [] /\ y = [] /\ s = PFloat f_one) \/
     (share x y = true /\ s = raw_score "OVERLAP_COEFFICIENT" x y /\
      qualifies "OVERLAP_COEFFICIENT" op t x y = true)).
Proof.
  intros HL HR Hres Hin.
  apply (ovc_core_spec t op ae L R res HL HR Hres) in Hin.
  destruct Hin as [x [y [Hx [Hy Hcase]]]]. exists x, y. split; [exact Hx|]. split; [exact Hy|].
  destruct Hcase as [H|[Hpos [Hs Hcmp]]]; [left; exact H|right].
  assert (Hndx : NoDup x) by (apply HL; eapply nth_error_In; exact Hx).
  assert (Hndy : NoDup y) by (apply HR; eapply nth_error_In; exact Hy).
  split; [apply overlap_sets_pos_share; exact Hpos|].
  unfold qualifies. rewrite reported_score_ovc, (raw_score_ovc x y Hndx Hndy), <- Hs.
  split; [reflexivity|]. rewrite Hcmp. reflexivity.
Qed.

Example ovc_core_ex :
  ovc_core (PFloat (mkF 1 (-1))) ">=" true [[1;2;3]; [4;5]; []] [[2;3;9]; [5;4;1]; [7]; []]
  = Some [(0%nat, 0%nat, raw_score "OVERLAP_COEFFICIENT" [1;2;3] [2;3;9]);
          (1%nat, 1%nat, PFloat f_one); (2%nat, 3%nat, PFloat f_one)] /\
  qualifies "OVERLAP_COEFFICIENT" ">=" (PFloat (mkF 1 (-1))) [1;2;3] [2;3;9] = true /\
  qualifies "OVERLAP_COEFFICIENT" ">=" (PFloat (mkF 1 (-1))) [1;2;3] [7] = false.
Proof. vm_compute. repeat split; reflexivity. Qed.
Example pos_threshold_ex : pos_threshold (PFloat (mkF 1 (-1))) /\ pos_threshold (PInt 1).
Proof. split; vm_compute; reflexivity. Qed.
(* without a positive threshold the completeness statement is false: overlap 0 scores 0.0 >= 0.0 *)
Example ovc_core_zero_threshold_ex :
  qualifies "OVERLAP_COEFFICIENT" ">=" (PFloat (S754_zero false)) [1] [2] = true /\
  ovc_core (PFloat (S754_zero false)) ">=" false [[1]] [[2]] = Some [].
Proof. vm_compute. split; reflexivity. Qed.

(* ====================================================================== (D) *)
(* The generated formulas at sim_measure_type = "OVERLAP", integer threshold T. *)
Definition ovp (T q : Z) : fparams := {| fm := "OVERLAP"; ft := PInt T; fq := q |}.
Definition maxsizeZ : Z := 9223372036854775807.

Lemma g_lb_ov T q n : g_lb (ovp T q) n = PInt T.
Proof. reflexivity. Qed.
Lemma g_ub_ov T q n : g_ub (ovp T q) n = PInt maxsizeZ.
Proof. reflexivity. Qed.
Lemma g_ot_ov T q a b : g_ot (ovp T q) a b = PInt T.
Proof. reflexivity. Qed.

Lemma py_eq_int_val a b : py_eq (PInt a) (PInt b) = PBool (a =? b).
Proof.
  unfold py_eq, strict2, pv_eqb, num_of, num_cmp.
  destruct (Z.compare_spec a b); destruct (Z.eqb_spec a b); try reflexivity; lia.
Qed.

Lemma g_pl_ov T q n : g_pl (ovp T q) n = PInt (if n =? 0 then 0 else Z.max (n - T + 1) 0).
Proof.
  unfold g_pl, get_prefix_length, ovp. cbn [fm ft fq].
  rewrite py_eq_int_val. cbn [bindx py_truth]. destruct (n =? 0); [reflexivity|].
  change (py_add (py_sub (PInt n) (PInt T)) (PInt 1)) with (PInt (n - T + 1)).
  rewrite <- py_max_int. reflexivity.
Qed.

Lemma g_pl_ov_ge T q n : 1 <= T -> T <= n -> g_pl (ovp T q) n = PInt (n - T + 1).
Proof.
  intros HT Hn. rewrite g_pl_ov. destruct (Z.eqb_spec n 0); [lia|]. f_equal. lia.
Qed.

Lemma in_window_int a b n : in_window (PInt a) (PInt b) n = (a <=? n) && (n <=? b).
Proof. unfold in_window. rewrite !py_le_int_val. apply py_and_bool. Qed.

Lemma in_window_ov T q k n : T <= n -> n <= maxsizeZ ->
  in_window (g_lb (ovp T q) k) (g_ub (ovp T q) k) n = true.
Proof.
  intros H1 H2. rewrite g_lb_ov, g_ub_ov, in_window_int.
  apply andb_true_iff. split; apply Z.leb_le; assumption.
Qed.

Lemma prefix_len_not_le0 a b : 1 <= a -> 1 <= b ->
  py_truth (py_or (py_le (PInt a) (PInt 0)) (py_le (PInt b) (PInt 0))) = false.
Proof.
  intros Ha Hb. rewrite !py_le_int_val.
  destruct (Z.leb_spec a 0); [lia|]. destruct (Z.leb_spec b 0); [lia|]. reflexivity.
Qed.

Lemma slice0_pos z l : 0 <= z -> slice0 (PInt z) l = Some (firstn (Z.to_nat z) l).
Proof. intros H. unfold slice0. destruct (Z.ltb_spec z 0); [lia|reflexivity]. Qed.

(* ---- sets as strictly sorted lists: the prefixes of length n - T + 1 intersect ---- *)
Lemma hits_le_l X Y : NoDup X -> NoDup Y -> (hits X Y <= List.length X)%nat.
Proof. intros HX HY. rewrite hits_sym by assumption. apply hits_le. Qed.

Section SortedSets.
  Variables X Y : list Z.
  Variable T : Z.
  Hypothesis HsX : StronglySorted Z.lt X.
  Hypothesis HsY : StronglySorted Z.lt Y.
  Hypothesis HT : 1 <= T.
  Hypothesis Hov : T <= Z.of_nat (hits X Y).

  Let kx := Z.to_nat (len X - T + 1).
  Let ky := Z.to_nat (len Y - T + 1).

  Lemma ov_len_X : T <= len X.
  Proof.
    pose proof (hits_le_l X Y (ssorted_nodup X HsX) (ssorted_nodup Y HsY)). unfold len. lia.
  Qed.
  Lemma ov_len_Y : T <= len Y.
  Proof. pose proof (hits_le X Y). unfold len. lia. Qed.

  Lemma ov_prefix_hits : (0 < hits (firstn kx X) (firstn ky Y))%nat.
  Proof.
    pose proof ov_len_X as HlX. pose proof ov_len_Y as HlY. unfold len in HlX, HlY.
    destruct (hits (firstn kx X) (firstn ky Y)) eqn:E; [exfalso|lia].
    assert (HkX : (kx <= List.length X)%nat) by (unfold kx, len; lia).
    assert (HkY : (ky <= List.length Y)%nat) by (unfold ky, len; lia).
    assert (H := prefix_hits (firstn kx X) (skipn kx X) (firstn ky Y) (skipn ky Y)).
    rewrite !firstn_skipn in H. specialize (H HsX HsY).
    assert (HnX : firstn kx X <> []).
    { intro E0. apply (f_equal (@List.length Z)) in E0. rewrite firstn_length_le in E0 by exact HkX.
      simpl in E0. unfold kx, len in E0. lia. }
    assert (HnY : firstn ky Y <> []).
    { intro E0. apply (f_equal (@List.length Z)) in E0. rewrite firstn_length_le in E0 by exact HkY.
      simpl in E0. unfold ky, len in E0. lia. }
    specialize (H HnX HnY E). rewrite !skipn_length in H. unfold kx, ky, len in H. lia.
  Qed.

  Lemma ov_share_prefix : share (firstn kx X) (firstn ky Y) = true.
  Proof. rewrite share_sym. apply hits_pos_share. exact ov_prefix_hits. Qed.
End SortedSets.

(* ---- the loop of PositionFilter.filter_pair on sets ---- *)
Lemma hits_before XP XS Y1 w Y' :
  StronglySorted Z.lt (XP ++ XS) -> StronglySorted Z.lt (Y1 ++ w :: Y') -> In w XP ->
  hits (XP ++ XS) Y1 = hits XP Y1.
Proof.
  intros HsX HsY Hw. apply hits_restrict.
  - intros y Hy HyX. apply in_app_or in HyX. destruct HyX as [H|H]; [exact H|]. exfalso.
    assert (y < w) by (eapply (ssorted_app_lt Y1); [exact HsY|exact Hy|left; reflexivity]).
    assert (w < y) by (eapply (ssorted_app_lt XP XS); [exact HsX|exact Hw|exact H]).
    lia.
  - intros y Hy. apply in_or_app. left; exact Hy.
Qed.

Section FpLoop.
  Variables XP XS Y : list Z.
  Variable al : Z.
  Hypothesis HsX : StronglySorted Z.lt (XP ++ XS).
  Hypothesis HsY : StronglySorted Z.lt Y.
  Hypothesis Hal : al <= Z.of_nat (hits (XP ++ XS) Y).

  Lemma posfp_loop_counts : forall Y2 Y1 Y3 cur,
    Y = (Y1 ++ Y2 ++ Y3)%list ->
    cur = Z.of_nat (hits XP Y1) ->
    posfp_loop (len (XP ++ XS)) (len Y) (PInt al) XP Y2 (Z.of_nat (List.length Y1)) cur
    = Some (Z.of_nat (hits XP (Y1 ++ Y2))).
  Proof.
    induction Y2 as [|w Y2 IH]; intros Y1 Y3 cur HY Hcur.
    - simpl. rewrite app_nil_r. f_equal. exact Hcur.
    - cbn [posfp_loop].
      replace (Y1 ++ w :: Y2)%list with ((Y1 ++ [w]) ++ Y2)%list
        by (rewrite <- app_assoc; reflexivity).
      assert (Hj : Z.of_nat (List.length Y1) + 1 = Z.of_nat (List.length (Y1 ++ [w])))
        by (rewrite app_length; simpl; lia).
      rewrite memZ_mem. destruct (mem w XP) eqn:Ew.
      + assert (Hin : In w XP) by (apply mem_In; exact Ew).
        rewrite py_lt_int.
        assert (Hb : al <= cur + (1 + Z.min (len (XP ++ XS) - 0 - 1)
                                          (len Y - Z.of_nat (List.length Y1) - 1))).
        { assert (HlX : (hits (XP ++ XS) Y <= List.length (XP ++ XS))%nat)
            by (apply hits_le_l; apply ssorted_nodup; assumption).
          assert (Ho : hits (XP ++ XS) Y
                       = (hits (XP ++ XS) Y1 + hits (XP ++ XS) (w :: Y2 ++ Y3))%nat)
            by (rewrite HY at 1; rewrite hits_app; reflexivity).
          assert (H1 : hits (XP ++ XS) Y1 = hits XP Y1).
          { apply (hits_before XP XS Y1 w (Y2 ++ Y3)); [exact HsX| |exact Hin].
            assert (HsY' := HsY). rewrite HY in HsY'. exact HsY'. }
          assert (H3 : (hits (XP ++ XS) (w :: Y2 ++ Y3) <= List.length (w :: Y2 ++ Y3))%nat)
            by apply hits_le.
          assert (HlenY : len Y = Z.of_nat (List.length Y1)
                                  + Z.of_nat (List.length (w :: Y2 ++ Y3))).
          { unfold len. rewrite HY, app_length. simpl. lia. }
          unfold len at 1. lia. }
        destruct (Z.ltb_spec (cur + (1 + Z.min (len (XP ++ XS) - 0 - 1)
                                             (len Y - Z.of_nat (List.length Y1) - 1))) al);
          [lia|].
        rewrite Hj. eapply IH with (Y3 := Y3).
        * rewrite HY, <- app_assoc. reflexivity.
        * rewrite hits_app, (hits_cons_in XP w [] Ew). unfold hits at 2. simpl. lia.
      + rewrite Hj. eapply IH with (Y3 := Y3).
        * rewrite HY, <- app_assoc. reflexivity.
        * rewrite hits_app, (hits_cons_notin XP w [] Ew). unfold hits at 2. simpl. lia.
  Qed.

  Theorem posfp_loop_result YP YS :
    Y = (YP ++ YS)%list ->
    posfp_loop (len (XP ++ XS)) (len Y) (PInt al) XP YP 0 0 = Some (Z.of_nat (hits XP YP)).
  Proof. intros HY. apply (posfp_loop_counts YP [] YS 0); [exact HY|reflexivity]. Qed.
End FpLoop.

(* ---- the three filters on two strictly sorted rank lists whose overlap is >= T ---- *)
Section OvSorted.
  Variables X Y : list Z.
  Variables T q : Z.
  Hypothesis HsX : StronglySorted Z.lt X.
  Hypothesis HsY : StronglySorted Z.lt Y.
  Hypothesis HT : 1 <= T.
  Hypothesis Hov : T <= Z.of_nat (hits X Y).
  Hypothesis HmX : len X <= maxsizeZ.
  Hypothesis HmY : len Y <= maxsizeZ.

  Let kx := Z.to_nat (len X - T + 1).
  Let ky := Z.to_nat (len Y - T + 1).

  Lemma ovs_slices :
    slice0 (g_pl (ovp T q) (len X)) X = Some (firstn kx X) /\
    slice0 (g_pl (ovp T q) (len Y)) Y = Some (firstn ky Y).
  Proof.
    pose proof (ov_len_X X Y T HsX HsY Hov) as HlX. pose proof (ov_len_Y X Y T Hov) as HlY.
    rewrite !g_pl_ov_ge by assumption. rewrite !slice0_pos by lia. split; reflexivity.
  Qed.

  Lemma ovs_size_cand : size_cand (ovp T q) (len X) (len Y) = true.
  Proof.
    pose proof (ov_len_X X Y T HsX HsY Hov) as HlX. pose proof (ov_len_Y X Y T Hov) as HlY.
    unfold size_cand. rewrite in_window_ov by assumption. rewrite g_lb_ov, py_gt_int.
    destruct (Z.ltb_spec 0 (len X)); [|lia]. destruct (Z.ltb_spec (len Y) T); [lia|]. reflexivity.
  Qed.

  Lemma ovs_prefix_cand : prefix_cand (ovp T q) X Y = Some true.
  Proof.
    unfold prefix_cand. destruct ovs_slices as [-> ->]. f_equal.
    rewrite share_sym. apply (ov_share_prefix X Y T HsX HsY HT Hov).
  Qed.

  Lemma ovs_pos_cand :
    pos_cand (ovp T q) X Y = Some (Z.of_nat (hits (firstn kx X) (firstn ky Y))) /\
    0 < Z.of_nat (hits (firstn kx X) (firstn ky Y)).
  Proof.
    pose proof (ov_len_X X Y T HsX HsY Hov) as HlX.
    split; [|pose proof (ov_prefix_hits X Y T HsX HsY HT Hov) as H; unfold kx, ky; lia].
    unfold pos_cand. destruct ovs_slices as [-> ->]. f_equal.
    pose proof (pos_loop_result (ovp T q) (firstn kx X) (skipn kx X) Y T) as H.
    rewrite !firstn_skipn in H.
    apply (H HsX HsY) with (YS := skipn ky Y).
    - apply in_window_ov; assumption.
    - apply g_ot_ov.
    - exact Hov.
    - symmetry. apply firstn_skipn.
  Qed.

  Lemma ovs_posfp_loop :
    posfp_loop (len X) (len Y) (g_ot (ovp T q) (len X) (len Y)) (firstn kx X) (firstn ky Y) 0 0
    = Some (Z.of_nat (hits (firstn kx X) (firstn ky Y))).
  Proof.
    rewrite g_ot_ov.
    pose proof (posfp_loop_result (firstn kx X) (skipn kx X) Y T) as H.
    rewrite !firstn_skipn in H.
    apply (H HsX HsY Hov) with (YS := skipn ky Y). symmetry. apply firstn_skipn.
  Qed.
End OvSorted.

(* ---- table level (C04 for OVERLAP, find_candidates): rank lists of two token sets ---- *)
Section OvTable.
  Variables all l r : list Z.
  Variables T q : Z.
  Hypothesis Hndl : NoDup l.
  Hypothesis Hndr : NoDup r.
  Hypothesis Hl : forall w, In w l -> In w all.
  Hypothesis Hr : forall w, In w r -> In w all.
  Hypothesis HT : 1 <= T.
  Hypothesis Hov : T <= overlap_sets l r.
  Hypothesis Hml : len l <= maxsizeZ.
  Hypothesis Hmr : len r <= maxsizeZ.

  Let X := order all l.
  Let Y := order all r.

  Lemma ovt_facts :
    StronglySorted Z.lt X /\ StronglySorted Z.lt Y /\ T <= Z.of_nat (hits X Y) /\
    len X = len l /\ len Y = len r.
  Proof.
    split; [apply order_ssorted; assumption|]. split; [apply order_ssorted; assumption|].
    split.
    - unfold X, Y. rewrite order_hits by assumption. rewrite <- overlap_sets_hits by assumption.
      exact Hov.
    - unfold X, Y, len. rewrite !order_length by assumption. split; reflexivity.
  Qed.

  Theorem ov_size_cand : size_cand (ovp T q) (len X) (len Y) = true.
  Proof.
    destruct ovt_facts as [HsX [HsY [Hh [HlX HlY]]]].
    apply ovs_size_cand; try assumption; lia.
  Qed.

  Theorem ov_prefix_cand : prefix_cand (ovp T q) X Y = Some true.
  Proof. destruct ovt_facts as [HsX [HsY [Hh _]]]. apply ovs_prefix_cand; assumption. Qed.

  Theorem ov_pos_cand : exists v, pos_cand (ovp T q) X Y = Some v /\ 0 < v.
  Proof.
    destruct ovt_facts as [HsX [HsY [Hh [HlX HlY]]]].
    eexists. apply ovs_pos_cand; try assumption; lia.
  Qed.
End OvTable.

(* ---- pair level (C04 for OVERLAP, filter_pair) ---- *)
Theorem ov_size_filter_pair T q ae l r :
  1 <= T -> T <= overlap_sets l r -> len r <= maxsizeZ ->
  size_filter_pair (ovp T q) ae (len l) (len r) = false.
Proof.
  intros HT Hov Hm. pose proof (overlap_sets_le_l l r) as H1. pose proof (overlap_sets_le_r l r) as H2.
  unfold size_filter_pair.
  destruct (Z.eqb_spec (len l) 0) as [E|_]; [lia|]. cbn [andb].
  rewrite in_window_ov by lia. reflexivity.
Qed.

Section OvPair.
  Variables l r : list Z.
  Variables T q : Z.
  Variable ae : bool.
  Hypothesis Hndl : NoDup l.
  Hypothesis Hndr : NoDup r.
  Hypothesis HT : 1 <= T.
  Hypothesis Hov : T <= overlap_sets l r.

  Lemma ovp_facts :
    let X := order (l ++ r) l in let Y := order (l ++ r) r in
    StronglySorted Z.lt X /\ StronglySorted Z.lt Y /\ T <= Z.of_nat (hits X Y) /\
    len X = len l /\ len Y = len r.
  Proof.
    apply ovt_facts; try assumption; intros w Hw; apply in_or_app; [left|right]; exact Hw.
  Qed.

  Lemma ovp_not_empty : (len l =? 0) && (len r =? 0) = false.
  Proof.
    pose proof (overlap_sets_le_l l r). destruct (Z.eqb_spec (len l) 0); [lia|reflexivity].
  Qed.

  Theorem ov_prefix_filter_pair : prefix_filter_pair (ovp T q) ae l r = Some false.
  Proof.
    destruct ovp_facts as [HsX [HsY [Hh [HlX HlY]]]].
    unfold prefix_filter_pair. rewrite ovp_not_empty. cbv zeta.
    remember (order (l ++ r) l) as X eqn:EX. remember (order (l ++ r) r) as Y eqn:EY.
    rewrite <- HlX, <- HlY.
    pose proof (ov_len_X X Y T HsX HsY Hh) as H1. pose proof (ov_len_Y X Y T Hh) as H2.
    destruct (ovs_slices X Y T q HsX HsY HT Hh) as [-> ->].
    rewrite !g_pl_ov_ge by assumption. rewrite prefix_len_not_le0 by lia.
    rewrite (ov_share_prefix X Y T HsX HsY HT Hh). reflexivity.
  Qed.

  Theorem ov_position_filter_pair : position_filter_pair (ovp T q) ae l r = Some false.
  Proof.
    destruct ovp_facts as [HsX [HsY [Hh [HlX HlY]]]].
    unfold position_filter_pair. rewrite ovp_not_empty. cbv zeta.
    remember (order (l ++ r) l) as X eqn:EX. remember (order (l ++ r) r) as Y eqn:EY.
    rewrite <- HlX, <- HlY.
    pose proof (ov_len_X X Y T HsX HsY Hh) as H1. pose proof (ov_len_Y X Y T Hh) as H2.
    destruct (ovs_slices X Y T q HsX HsY HT Hh) as [-> ->].
    rewrite (ovs_posfp_loop X Y T q HsX HsY Hh).
    rewrite !g_pl_ov_ge by assumption. rewrite prefix_len_not_le0 by lia.
    pose proof (ov_prefix_hits X Y T HsX HsY HT Hh) as Hp.
    destruct (Z.ltb_spec 0 (Z.of_nat (hits (firstn (Z.to_nat (len X - T + 1)) X)
                                          (firstn (Z.to_nat (len Y - T + 1)) Y)))); [reflexivity|lia].
  Qed.
End OvPair.

Example ov_filters_ex :
  let p := ovp 2 3 in
  overlap_sets [30;10;70;90] [90;20;30;50] = 2 /\
  size_filter_pair p false 4 4 = false /\
  prefix_filter_pair p false [30;10;70;90] [90;20;30;50] = Some false /\
  position_filter_pair p false [30;10;70;90] [90;20;30;50] = Some false /\
  (* one more required token: the pair is (correctly) dropped by the prefix filter *)
  prefix_filter_pair (ovp 4 3) false [30;10;70;90] [90;20;30;50] = Some true.
Proof. vm_compute. repeat split; reflexivity. Qed.
Example ov_cands_ex :
  let p := ovp 2 3 in
  let all := [30;10;70;90;90;20;30;50;11;12] in
  let X := order all [30;10;70;90] in let Y := order all [90;20;30;50] in
  size_cand p (len X) (len Y) = true /\ prefix_cand p X Y = Some true /\
  pos_cand p X Y = Some 1.
Proof. vm_compute. repeat split; reflexivity. Qed.

(* ---- the theorems applied to concrete data (their hypotheses are satisfiable) ---- *)
Example ovc_core_complete_inst :
  forall res, ovc_core (PFloat (mkF 1 (-1))) ">=" true [[1;2;3]; [4;5]; []] [[2;3;9]; [5;4;1]; [7]; []]
              = Some res ->
  In (0%nat, 0%nat, raw_score "OVERLAP_COEFFICIENT" [1;2;3] [2;3;9]) res.
Proof.
  intros res Hres.
  eapply (ovc_core_complete (PFloat (mkF 1 (-1))) ">=" true); [| | | |exact Hres| | |].
  - rows_concrete.
  - rows_concrete.
  - left; reflexivity.
  - vm_compute; reflexivity.
  - reflexivity.
  - reflexivity.
  - vm_compute; reflexivity.
Qed.

Example ov_filter_pair_inst :
  prefix_filter_pair (ovp 2 3) false [30;10;70;90] [90;20;30;50] = Some false /\
  position_filter_pair (ovp 2 3) true [30;10;70;90] [90;20;30;50] = Some false /\
  size_filter_pair (ovp 2 3) true (len [30;10;70;90]) (len [90;20;30;50]) = false.
Proof.
  assert (Hov : 2 <= overlap_sets [30;10;70;90] [90;20;30;50]) by (vm_compute; discriminate).
  split; [|split].
  - apply ov_prefix_filter_pair; try nodup_concrete; [lia|exact Hov].
  - apply ov_position_filter_pair; try nodup_concrete; [lia|exact Hov].
  - apply ov_size_filter_pair; [lia|exact Hov|vm_compute; discriminate].
Qed.

Example ov_cand_inst :
  let all := [30;10;70;90;90;20;30;50;11;12] in
  let X := order all [30;10;70;90] in let Y := order all [90;20;30;50] in
  prefix_cand (ovp 2 3) X Y = Some true /\ exists v, pos_cand (ovp 2 3) X Y = Some v /\ 0 < v.
Proof.
  intros all X Y.
  assert (Hov : 2 <= overlap_sets [30;10;70;90] [90;20;30;50]) by (vm_compute; discriminate).
  assert (Hl : forall w, In w [30;10;70;90] -> In w all) by (intros w H; simpl in *; tauto).
  assert (Hr : forall w, In w [90;20;30;50] -> In w all) by (intros w H; simpl in *; tauto).
  split.
  - apply ov_prefix_cand; try nodup_concrete; try assumption; lia.
  - apply ov_pos_cand; try nodup_concrete; try assumption; try lia; vm_compute; discriminate.
Qed.

Print Assumptions raw_score_ovc.
Print Assumptions ovc_core_spec.
Print Assumptions ovc_core_once.
Print Assumptions ovc_core_complete.
Print Assumptions ovc_core_sound.
Print Assumptions pos_threshold_float.
Print Assumptions posfp_loop_result.
Print Assumptions ov_size_filter_pair.
Print Assumptions ov_prefix_filter_pair.
Print Assumptions ov_position_filter_pair.
Print Assumptions ov_size_cand.
Print Assumptions ov_prefix_cand.
Print Assumptions ov_pos_cand.
