(* Float part of the split_table partition proof (property C10 core).
   split_table computes   split_size = 1.0/num_splits*len(table)   and the chunk boundaries
   int(round(i*split_size)).  Here: the boundary function `beta`, its real-number
   characterisation, beta 0 = 0, beta k = n, monotonicity, and the shape of the GENERATED
   `split_bounds` in terms of beta.  Envelope: 1 <= k < 2^31, 0 <= n < 2^31.              *)
From Coq Require Import ZArith Reals Lia Lra Psatz SpecFloat Bool String List.
From Flocq Require Import Core BinarySingleNaN Relative.
From SSJ Require Import F64 F64Spec PyNum HelperGen ArithCommon.
Import ListNotations.
Open Scope Z_scope.

(* ------------------------------------------------------------------ *)
(** * Definitions                                                      *)

(* the literal 1.0 as the translator prints it *)
Definition f_lit1 : f64 := mkF 4503599627370496 (-52).
(* split_size = 1.0 / k * n *)
Definition ssize (k n : Z) : f64 := fmul (fdiv f_lit1 (f_of_Z k)) (f_of_Z n).
(* boundary i:  int(round(i * split_size)) *)
Definition beta (k n i : Z) : Z := f_round_int (fmul (f_of_Z i) (ssize k n)).
(* 0, 1, ..., k-1 *)
Definition idx (k : Z) : list Z := map Z.of_nat (seq 0 (Z.to_nat k)).

(* ------------------------------------------------------------------ *)
(** * Python level                                                     *)

Lemma py_mul_fi : forall x n, py_mul (PFloat x) (PInt n) = PFloat (fmul x (f_of_Z n)).
Proof. reflexivity. Qed.
Lemma py_mul_if : forall i s, py_mul (PInt i) (PFloat s) = PFloat (fmul (f_of_Z i) s).
Proof. reflexivity. Qed.
Lemma py_add_ii : forall a b, py_add (PInt a) (PInt b) = PInt (a + b).
Proof. reflexivity. Qed.
Lemma py_round1_fin : forall f, f_is_finite f = true ->
  py_round1 (PFloat f) = PInt (f_round_int f).
Proof. intros f H. unfold py_round1, strict1, num_of. now rewrite H. Qed.
Lemma py_int_int : forall z, py_int (PInt z) = PInt z.
Proof. reflexivity. Qed.

(* the loop of split_table: a fold that appends one tuple per index *)
Lemma fold_append : forall (F : pyval * pyval -> pyval -> pyval * pyval) (g : pyval -> pyval)
  (xs : list pyval) (acc : list pyval),
  (forall a x, In x xs -> F (PNone, PList a) x = (PNone, PList (a ++ [g x]))) ->
  fold_left F xs (PNone, PList acc) = (PNone, PList (acc ++ map g xs)).
Proof.
intros F g xs. induction xs as [|x xs IH]; intros acc HF.
- simpl. now rewrite app_nil_r.
- simpl. rewrite HF by (left; reflexivity).
  rewrite IH by (intros a y Hy; apply HF; right; exact Hy).
  now rewrite <- app_assoc.
Qed.

(* split_bounds in terms of the split size s, for any s whose products are finite *)
Lemma split_bounds_eval : forall n k s,
  f_is_zero (f_of_Z k) = false ->
  (forall i, 0 <= i <= k -> f_is_finite (fmul (f_of_Z i) s) = true) ->
  s = fmul (fdiv f_lit1 (f_of_Z k)) (f_of_Z n) ->
  split_bounds (PInt n) (PInt k) =
  PList (map (fun i => PTuple [PInt (f_round_int (fmul (f_of_Z i) s));
                               PInt (f_round_int (fmul (f_of_Z (i + 1)) s))]) (idx k)).
Proof.
intros n k s Hz Hfin Hs.
unfold split_bounds.
fold f_lit1. rewrite py_truediv_fi by exact Hz. rewrite py_mul_fi. rewrite <- Hs.
cbn [bindx].
unfold py_range, py_for, py_iter.
rewrite Z.sub_0_r.
set (g := fun x : pyval => match x with
  | PInt i => PTuple [PInt (f_round_int (fmul (f_of_Z i) s));
                      PInt (f_round_int (fmul (f_of_Z (i + 1)) s))]
  | _ => PNone end).
rewrite (fold_append _ g).
- cbn [bindx app]. unfold idx. rewrite !map_map. reflexivity.
- intros a x Hx. apply in_map_iff in Hx. destruct Hx as (j & <- & Hj).
  apply in_seq in Hj.
  assert (Hi : 0 <= Z.of_nat j /\ Z.of_nat j + 1 <= k) by lia.
  change (0 + Z.of_nat j) with (Z.of_nat j).
  set (i := Z.of_nat j) in *.
  cbn [is_exc fst bindx].
  rewrite py_add_ii, !py_mul_if.
  rewrite !py_round1_fin by (apply Hfin; lia).
  rewrite !py_int_int. reflexivity.
Qed.

(* ------------------------------------------------------------------ *)
(** * Float level: the values are finite and are the rounded exact ones *)
Open Scope R_scope.

Lemma f_lit1_spec : fin f_lit1 /\ FR f_lit1 = 1.
Proof.
assert (E : f_lit1 = S754_finite false 4503599627370496 (-52)) by (vm_compute; reflexivity).
rewrite E. split.
- split; vm_compute; reflexivity.
- rewrite FR_finite_neg. simpl cond_Zopp.
  change (Z.pow_pos 2 52) with 4503599627370496%Z. lra.
Qed.

Lemma f_round_int_spec : forall x, f_round_int x = ZnearestE (FR x).
Proof.
intros x. unfold f_round_int. rewrite f_scaled_rne_spec by lia.
change (IZR (10 ^ 0)) with 1. rewrite Rmult_1_r.
destruct x as [s|s| |s m e]; try (unfold FR; simpl SF2R; rewrite Rabs_R0, (ZnearestE_IZR 0);
  cbn [f_sign]; try destruct s; reflexivity).
cbn [f_sign]. pose proof (FR_finite_sign s m e) as E.
set (a := Rabs (FR (S754_finite s m e))) in *. rewrite E.
destruct s; simpl cond_Ropp.
- now rewrite ZnearestE_opp.
- reflexivity.
Qed.

Definition M31 : R := 2147483647.   (* 2^31 - 1 *)

Lemma IZR_31 : forall z : Z, (0 <= z < 2^31)%Z -> 0 <= IZR z <= M31.
Proof.
intros z Hz. change (2^31)%Z with 2147483648%Z in Hz. unfold M31.
split; apply IZR_le; lia.
Qed.

Lemma f_of_31 : forall z : Z, (0 <= z < 2^31)%Z -> fin (f_of_Z z) /\ FR (f_of_Z z) = IZR z.
Proof. intros z Hz. apply f_of_size. change (2^31)%Z with 2147483648%Z in Hz.
change (2^50)%Z with 1125899906842624%Z. lia. Qed.

Lemma RN_M31 : RN M31 = M31.
Proof. unfold M31. apply (RN_int 2147483647). simpl. lia. Qed.
Lemma RN_1 : RN 1 = 1.
Proof. apply (RN_int 1). simpl. lia. Qed.

(* the real-number counterparts *)
Definition rinv (k : Z) : R := RN (1 / IZR k).
Definition rsize (k n : Z) : R := RN (rinv k * IZR n).
Definition rprod (k n i : Z) : R := RN (IZR i * rsize k n).

Lemma rinv_range : forall k, (1 <= k < 2^31)%Z -> 0 <= rinv k <= 1.
Proof.
intros k Hk. destruct (IZR_31 k ltac:(lia)) as [_ H2].
assert (H1 : 1 <= IZR k) by (apply IZR_le; lia).
assert (Hq : 0 <= 1 / IZR k <= 1).
{ apply div_bounds; lra. }
unfold rinv. split.
- apply RN_ge_0. lra.
- apply Rle_trans with (RN 1); [apply RN_le; lra | rewrite RN_1; lra].
Qed.

Lemma rsize_range : forall k n, (1 <= k < 2^31)%Z -> (0 <= n < 2^31)%Z -> 0 <= rsize k n <= M31.
Proof.
intros k n Hk Hn. pose proof (rinv_range k Hk) as Hr. pose proof (IZR_31 n Hn) as HN.
assert (Hp : 0 * 0 <= rinv k * IZR n <= 1 * M31) by (apply mul_bounds; lra).
unfold rsize. split.
- apply RN_ge_0. lra.
- apply Rle_trans with (RN M31); [apply RN_le; lra | rewrite RN_M31; lra].
Qed.

Lemma ssize_spec : forall k n, (1 <= k < 2^31)%Z -> (0 <= n < 2^31)%Z ->
  fin (ssize k n) /\ FR (ssize k n) = rsize k n.
Proof.
intros k n Hk Hn.
destruct f_lit1_spec as [F1 R1].
destruct (f_of_31 k ltac:(lia)) as [Fk Rk].
destruct (f_of_31 n Hn) as [Fn Rn].
assert (H1 : 1 <= IZR k) by (apply IZR_le; lia).
pose proof (rinv_range k Hk) as Hr.
destruct (fdiv_spec f_lit1 (f_of_Z k)) as [Fd Rd]; try assumption.
{ rewrite Rk. lra. }
{ rewrite R1, Rk. fold (rinv k). apply Rle_lt_trans with 1.
  rewrite Rabs_pos_eq; lra. apply (bpow_lt radix2 0). lia. }
rewrite R1, Rk in Rd. fold (rinv k) in Rd.
pose proof (rsize_range k n Hk Hn) as Hs.
unfold ssize.
destruct (fmul_spec (fdiv f_lit1 (f_of_Z k)) (f_of_Z n)) as [Fm Rm]; try assumption.
{ rewrite Rd, Rn. apply RN_no_overflow'.
  pose proof (IZR_31 n Hn) as HN. unfold M31 in HN.
  assert (Hp : 0 * 0 <= rinv k * IZR n <= 1 * 2147483647) by (apply mul_bounds; lra).
  lra. }
rewrite Rd, Rn in Rm. now split.
Qed.

Lemma prod_spec : forall k n i, (1 <= k < 2^31)%Z -> (0 <= n < 2^31)%Z -> (0 <= i < 2^31)%Z ->
  fin (fmul (f_of_Z i) (ssize k n)) /\ FR (fmul (f_of_Z i) (ssize k n)) = rprod k n i.
Proof.
intros k n i Hk Hn Hi.
destruct (ssize_spec k n Hk Hn) as [Fs Rs].
destruct (f_of_31 i Hi) as [Fi Ri].
pose proof (rsize_range k n Hk Hn) as Hs. pose proof (IZR_31 i Hi) as HI.
unfold M31 in *.
destruct (fmul_spec (f_of_Z i) (ssize k n)) as [Fm Rm]; try assumption.
{ rewrite Ri, Rs. apply RN_no_overflow'.
  assert (Hp : 0 * 0 <= IZR i * rsize k n <= 2147483647 * 2147483647) by (apply mul_bounds; lra).
  lra. }
rewrite Ri, Rs in Rm. now split.
Qed.

Lemma beta_real : forall k n i, (1 <= k < 2^31)%Z -> (0 <= n < 2^31)%Z -> (0 <= i < 2^31)%Z ->
  beta k n i = ZnearestE (rprod k n i).
Proof.
intros k n i Hk Hn Hi. unfold beta. rewrite f_round_int_spec.
destruct (prod_spec k n i Hk Hn Hi) as [_ ->]. reflexivity.
Qed.

(* ------------------------------------------------------------------ *)
(** * The four facts about beta                                        *)

Theorem beta_0 : forall k n, (1 <= k < 2^31)%Z -> (0 <= n < 2^31)%Z -> beta k n 0 = 0%Z.
Proof.
intros k n Hk Hn. rewrite beta_real by (try assumption; simpl; lia).
unfold rprod. rewrite Rmult_0_l, RN_0. apply (ZnearestE_IZR 0).
Qed.

Theorem beta_mono : forall k n i j, (1 <= k < 2^31)%Z -> (0 <= n < 2^31)%Z ->
  (0 <= i)%Z -> (i <= j)%Z -> (j < 2^31)%Z -> (beta k n i <= beta k n j)%Z.
Proof.
intros k n i j Hk Hn Hi Hij Hj. rewrite !beta_real by (try assumption; lia).
apply Zrnd_le; [apply valid_rnd_N | ].
unfold rprod. apply RN_le.
pose proof (rsize_range k n Hk Hn) as Hs.
apply Rmult_le_compat_r; [lra | now apply IZR_le].
Qed.

Theorem beta_nonneg : forall k n i, (1 <= k < 2^31)%Z -> (0 <= n < 2^31)%Z ->
  (0 <= i < 2^31)%Z -> (0 <= beta k n i)%Z.
Proof.
intros k n i Hk Hn Hi. rewrite <- (beta_0 k n Hk Hn). apply beta_mono; lia.
Qed.

(* k * RN(RN(1/k) * n), rounded, is within 2^-20 of n: three roundings, each with relative
   error at most 2^-53, and n < 2^31 *)
Lemma last_real : forall K N r s p : R,
  1 <= K <= M31 -> 1 <= N <= M31 ->
  r = RN (1 / K) -> s = RN (r * N) -> p = RN (K * s) ->
  Rabs (p - N) < / 2.
Proof.
intros K N r s p HK HN Hr Hs Hp. unfold M31 in *.
pose proof eps_val as He.
set (q := 1 / K) in *.
assert (Hq1 : q * K = 1) by (unfold q; apply div_mul; lra).
assert (Hq : / 2147483647 <= q <= 1).
{ unfold q. apply div_bounds; lra. }
(* first rounding *)
assert (Hq100 : / B100 <= q) by (unfold B100; lra).
pose proof (RN_pos_bounds q Hq100) as B1. pose proof (RN_pos_crude q Hq100) as C1.
rewrite <- Hr in B1, C1. rewrite He in B1.
assert (A1 : 1 - / 9007199254740992 <= K * r <= 1 + / 9007199254740992).
{ split.
  - replace (1 - / 9007199254740992) with (K * (q * (1 - / 9007199254740992)))
      by (replace (K * (q * (1 - / 9007199254740992))) with ((q * K) * (1 - / 9007199254740992)) by ring;
          rewrite Hq1; ring).
    apply Rmult_le_compat_l; lra.
  - replace (1 + / 9007199254740992) with (K * (q * (1 + / 9007199254740992)))
      by (replace (K * (q * (1 + / 9007199254740992))) with ((q * K) * (1 + / 9007199254740992)) by ring;
          rewrite Hq1; ring).
    apply Rmult_le_compat_l; lra. }
(* second rounding *)
assert (P2 : / 4294967294 * 1 <= r * N <= 2 * 2147483647) by (apply mul_bounds; lra).
assert (H2 : / B100 <= r * N) by (unfold B100; lra).
pose proof (RN_pos_bounds (r * N) H2) as B2. rewrite <- Hs in B2. rewrite He in B2.
assert (A2 : (1 - / 9007199254740992) * N <= K * r * N <= (1 + / 9007199254740992) * N).
{ split; apply Rmult_le_compat_r; lra. }
assert (A3 : K * (r * N * (1 - / 9007199254740992)) <= K * s <= K * (r * N * (1 + / 9007199254740992))).
{ split; apply Rmult_le_compat_l; lra. }
(* third rounding *)
assert (H3 : / B100 <= K * s) by (unfold B100; lra).
pose proof (RN_pos_bounds (K * s) H3) as B3. rewrite <- Hp in B3. rewrite He in B3.
clear - B3 A3 A2 HN.
apply Rabs_def1; lra.
Qed.

Theorem beta_last : forall k n, (1 <= k < 2^31)%Z -> (0 <= n < 2^31)%Z -> beta k n k = n.
Proof.
intros k n Hk Hn. rewrite beta_real by (try assumption; lia).
apply Znearest_imp.
assert (Hc : (n = 0 \/ 1 <= n)%Z) by lia. destruct Hc as [-> | Hn1].
- unfold rprod, rsize. rewrite Rmult_0_r, RN_0, Rmult_0_r, RN_0.
  rewrite Rminus_diag_eq by reflexivity. rewrite Rabs_R0. lra.
- apply (last_real (IZR k) (IZR n) (rinv k) (rsize k n)); try reflexivity.
  + destruct (IZR_31 k ltac:(lia)) as [_ H]. split; [apply IZR_le; lia | exact H].
  + destruct (IZR_31 n Hn) as [_ H]. split; [apply IZR_le; lia | exact H].
Qed.

(* ------------------------------------------------------------------ *)
(** * Shape of the generated split_bounds                              *)

(* chunk i is [beta i, beta (i+1)): the upper bound of chunk i and the lower bound of chunk
   i+1 are the same expression, so consecutive chunks share their boundary by construction *)
Theorem split_bounds_shape : forall k n, (1 <= k < 2^31)%Z -> (0 <= n < 2^31)%Z ->
  split_bounds (PInt n) (PInt k) =
  PList (map (fun i => PTuple [PInt (beta k n i); PInt (beta k n (i + 1))]) (idx k)).
Proof.
intros k n Hk Hn.
apply (split_bounds_eval n k (ssize k n)).
- destruct (f_of_31 k ltac:(lia)) as [Fk Rk].
  apply fin_pos_nz; [exact Fk | ]. rewrite Rk. apply IZR_lt. lia.
- intros i Hi. apply fin_finite. apply (prod_spec k n i); lia.
- reflexivity.
Qed.

Example split_10_3 :
  split_bounds (PInt 10) (PInt 3) =
  PList [PTuple [PInt 0; PInt 3]; PTuple [PInt 3; PInt 7]; PTuple [PInt 7; PInt 10]].
Proof. vm_compute. reflexivity. Qed.

Print Assumptions split_bounds_eval.   (* closed *)
Print Assumptions split_bounds_shape.
Print Assumptions beta_0.
Print Assumptions beta_last.
Print Assumptions beta_mono.
