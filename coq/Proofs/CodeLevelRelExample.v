(* The hypotheses of the code-level RELATIONAL theorems (CodeLevelRel*.v) are jointly satisfiable: on the concrete
   call of WrapperRefineExample.v / CodeLevelExample.v (4 x 4 rows, missing join values on both sides, a repeated
   output attribute, allow_missing, allow_empty) the per-call bundle `jcd_call_hyps` holds of the call, of the
   TRANSPOSED call (tables, key / join / output attributes, prefixes swapped) and of the call with another
   threshold; the theorems then apply, and every conclusion is ALSO checked by computing the frames the GENERATED
   jaccard_join_rows returns and evaluating the boolean relational specification on their key-level views.   *)
From Coq Require Import ZArith Bool List String Lia Permutation.
From SSJ Require Import F64 PyNum FilterUtilsGen HelperGen TokenOrderingGen ValidationGen IndexGen JoinGen
     TokenOrdering Measures Filters Joins Api JoinSpec MetaSpec Projection ProjSpec ProjectionFacts
     IndexPyFacts JoinGenFacts JoinGenLoop JoinRefine JoinRefineProj JoinRefineExample SplitFacts
     Frame WrapperGen WrapperRefineFrame WrapperRefineMissing WrapperRefineCore WrapperRefine WrapperRefineApi
     WrapperRefineExample OverlapFacts LawsSpec Laws ModelLaws CodeLevelBase CodeLevelJoins CodeLevelExample
     CodeLevelRelBase CodeLevelRelCalls CodeLevelRel CodeLevelRel2 CodeLevelRel3.
Import ListNotations.
Open Scope string_scope.
Open Scope Z_scope.

Definition exp (t : f64) : fparams := {| fm := "JACCARD"; ft := PFloat t; fq := 0 |}.
Definition half : f64 := mkF 1 (-1).
Definition three_q : f64 := mkF 3 (-2).

Ltac rows4 := intros row [<- | [<- | [<- | [<- | []]]]]; (split; [reflexivity | apply row_okb_sound; reflexivity]).
Ltac cells := intros row Hr; vm_compute in Hr;
  repeat (destruct Hr as [<- | Hr]; [split; [vm_compute; nodup_z | vm_compute; reflexivity]|]); destruct Hr.

(* the call, for any threshold in the envelope and any of the three operators *)
Lemma ex_call_hyps t op cf : env_t t = true -> lower_op op -> comp_op_map op = Some cf ->
  is_exc (validate_threshold (PFloat t) (PStr "JACCARD")) = false ->
  jcd_call_hyps ex_c (exp t) op wx_lsrc wx_rsrc ex_tokenize ex_sim ex_toks cf ex_kz.
Proof.
  intros Ht Hlow Hop Hvt. split; [|split; [|split; [|split; [|split]]]].
  - split; [apply well_formedb_sound; reflexivity|].
    split; [rows4|]. split; [rows4|].
    split; [intros row _; reflexivity|]. split; [intros row _; reflexivity|].
    split; [left; reflexivity|]. split; [exact Hvt|].
    split; [exact (vco_lower op "JACCARD" eq_refl Hlow)|].
    split; [reflexivity|]. split; [exact Hop|].
    intros H. vm_compute in H. repeat (destruct H as [H|H]; [discriminate H|]). exact H.
  - vm_compute. reflexivity.
  - intros x y. unfold ex_sim. now rewrite !ints_of_pints.
  - exists t. split; [reflexivity | exact Ht].
  - split; vm_compute; nodup_z.
  - split; cells.
Qed.

(* the TRANSPOSED call *)
Lemma ex_call_hyps_swapped t op cf : env_t t = true -> lower_op op -> comp_op_map op = Some cf ->
  is_exc (validate_threshold (PFloat t) (PStr "JACCARD")) = false ->
  jcd_call_hyps (swap_pcase ex_c) (exp t) op wx_rsrc wx_lsrc ex_tokenize ex_sim ex_toks cf ex_kz.
Proof.
  intros Ht Hlow Hop Hvt. split; [|split; [|split; [|split; [|split]]]].
  - split; [apply well_formedb_sound; reflexivity|].
    split; [rows4|]. split; [rows4|].
    split; [intros row _; reflexivity|]. split; [intros row _; reflexivity|].
    split; [left; reflexivity|]. split; [exact Hvt|].
    split; [exact (vco_lower op "JACCARD" eq_refl Hlow)|].
    split; [reflexivity|]. split; [exact Hop|].
    intros H. vm_compute in H. repeat (destruct H as [H|H]; [discriminate H|]). exact H.
  - vm_compute. reflexivity.
  - intros x y. unfold ex_sim. now rewrite !ints_of_pints.
  - exists t. split; [reflexivity | exact Ht].
  - split; vm_compute; nodup_z.
  - split; cells.
Qed.

Lemma half_env : env_t half = true. Proof. vm_compute. reflexivity. Qed.
Lemma three_q_env : env_t three_q = true. Proof. vm_compute. reflexivity. Qed.

Definition ex_call (c : pcase) (t : f64) (op : string) (am : bool) (nj : Z) (l r : list (list pyval)) : pyval :=
  jcd_call c (exp t) op true am nj 4 l r (PBool false) ex_tokenize ex_sim jaccard_join_rows.
Definition ex_jc (t : f64) (op : string) (am : bool) (nj : Z) : jcase :=
  jcd_jcase ex_c (exp t) op true am nj 4 wx_lsrc wx_rsrc ex_toks ex_kz.

(* ---- C13 transposition: the theorem applies ... *)
Example code_transpose_instance :
  transpose_spec (ex_jc half ">=" true 2)
    (code_view ex_c ex_kz (ex_call ex_c half ">=" true 2 wx_lsrc wx_rsrc))
    (code_view (swap_pcase ex_c) ex_kz (ex_call (swap_pcase ex_c) half ">=" true 2 wx_rsrc wx_lsrc)) = true.
Proof.
  apply (C13_code_transpose_jaccard ex_c (exp half) ">=" true true 2 4 wx_lsrc wx_rsrc (PBool false) (PBool false)
           ex_tokenize ex_sim ex_toks py_ge ex_kz); try reflexivity.
  - apply ex_call_hyps; [exact half_env | exact lower_ge | reflexivity | reflexivity].
  - apply ex_call_hyps_swapped; [exact half_env | exact lower_ge | reflexivity | reflexivity].
Qed.

(* ... and, independently, by computation on the two frames the generated wrapper returns *)
Definition nonempty (l : list Api.out_row) : bool := negb (Nat.eqb (List.length l) 0).
Example code_transpose_computed :
  let v1 := code_view ex_c ex_kz (ex_call ex_c half ">=" true 2 wx_lsrc wx_rsrc) in
  let v2 := code_view (swap_pcase ex_c) ex_kz (ex_call (swap_pcase ex_c) half ">=" true 2 wx_rsrc wx_lsrc) in
  transpose_spec (ex_jc half ">=" true 2) v1 v2 && nonempty v1 && nonempty v2 &&
  nonempty (keep_rows [ex_jc half ">=" true 2] v1) = true.
Proof. vm_compute. reflexivity. Qed.

(* ---- C13 threshold refinement: thresholds 1/2 (laxer) and 3/4 (stricter) *)
Example code_refine_instance :
  refine_spec (ex_jc half ">=" true 2) (ex_jc three_q ">=" true 1)
    (code_view ex_c ex_kz (ex_call ex_c half ">=" true 2 wx_lsrc wx_rsrc))
    (code_view ex_c ex_kz (ex_call ex_c three_q ">=" true 1 wx_lsrc wx_rsrc)) = true.
Proof.
  pose proof (C13_code_refine_jcd ex_c "JACCARD" half three_q 0 0 ">=" true true true 2 4 1 4 wx_lsrc wx_rsrc
                (PBool false) (PBool false) ex_tokenize ex_sim ex_toks py_ge ex_kz) as X.
  unfold jcd_wrapper_call in X. cbn [fm String.eqb Ascii.eqb Bool.eqb andb] in X. apply X; try reflexivity.
  - apply ex_call_hyps; [exact half_env | exact lower_ge | reflexivity | reflexivity].
  - apply ex_call_hyps; [exact three_q_env | exact lower_ge | reflexivity | reflexivity].
  - left. reflexivity.
Qed.
Example code_refine_computed :
  let v1 := code_view ex_c ex_kz (ex_call ex_c half ">=" true 2 wx_lsrc wx_rsrc) in
  let v2 := code_view ex_c ex_kz (ex_call ex_c three_q ">=" true 1 wx_lsrc wx_rsrc) in
  refine_spec (ex_jc half ">=" true 2) (ex_jc three_q ">=" true 1) v1 v2 && nonempty v1 && nonempty v2 = true.
Proof. vm_compute. reflexivity. Qed.

(* ---- C13 operator partition (allow_missing = False) *)
Example code_partition_instance :
  let cs := [ex_jc half ">=" false 2; ex_jc half ">" false 1; ex_jc half "=" false 3] in
  multiset_eqb (keep_rows cs (code_view ex_c ex_kz (ex_call ex_c half ">=" false 2 wx_lsrc wx_rsrc)))
               (keep_rows cs (code_view ex_c ex_kz (ex_call ex_c half ">" false 1 wx_lsrc wx_rsrc)) ++
                keep_rows cs (code_view ex_c ex_kz (ex_call ex_c half "=" false 3 wx_lsrc wx_rsrc))) = true.
Proof.
  pose proof (C13_code_partition_jcd ex_c (exp half) ">=" true 2 4 1 4 3 4 wx_lsrc wx_rsrc (PBool false) (PBool false)
                (PBool false) ex_tokenize ex_sim ex_toks py_ge ex_kz) as X.
  unfold jcd_wrapper_call in X. cbn [exp fm String.eqb Ascii.eqb Bool.eqb andb] in X. apply X; [|reflexivity].
  apply ex_call_hyps; [exact half_env | exact lower_ge | reflexivity | reflexivity].
Qed.
Example code_partition_computed :
  let cs := [ex_jc half ">=" false 2; ex_jc half ">" false 1; ex_jc half "=" false 3] in
  let vge := code_view ex_c ex_kz (ex_call ex_c half ">=" false 2 wx_lsrc wx_rsrc) in
  let vgt := code_view ex_c ex_kz (ex_call ex_c half ">" false 1 wx_lsrc wx_rsrc) in
  let veq := code_view ex_c ex_kz (ex_call ex_c half "=" false 3 wx_lsrc wx_rsrc) in
  multiset_eqb (keep_rows cs vge) (keep_rows cs vgt ++ keep_rows cs veq) && nonempty vge && nonempty vgt && nonempty veq = true.
Proof. vm_compute. reflexivity. Qed.

(* ---- C10 n_jobs: 2 jobs on 4 cpus against 1 job, against 7 jobs on 2 cpus, against n_jobs = -1 *)
Example code_njobs_instance : forall nj cp,
  same_rows_nongray_spec (ex_jc half ">=" true 2)
    (code_view ex_c ex_kz (ex_call ex_c half ">=" true 2 wx_lsrc wx_rsrc))
    (code_view ex_c ex_kz (jcd_call ex_c (exp half) ">=" true true nj cp wx_lsrc wx_rsrc (PBool true) ex_tokenize ex_sim
                             jaccard_join_rows)) = true.
Proof.
  intros nj cp.
  apply (C10_code_njobs_jaccard ex_c (exp half) ">=" true true 2 4 nj cp wx_lsrc wx_rsrc (PBool false) (PBool true)
           ex_tokenize ex_sim ex_toks py_ge ex_kz); [|reflexivity].
  apply ex_call_hyps; [exact half_env | exact lower_ge | reflexivity | reflexivity].
Qed.
Example code_njobs_computed :
  let v nj cp := code_view ex_c ex_kz (jcd_call ex_c (exp half) ">=" true true nj cp wx_lsrc wx_rsrc (PBool false)
                                         ex_tokenize ex_sim jaccard_join_rows) in
  same_rows_nongray_spec (ex_jc half ">=" true 2) (v 2 4) (v 1 4) &&
  same_rows_nongray_spec (ex_jc half ">=" true 2) (v 2 4) (v 7 2) &&
  same_rows_nongray_spec (ex_jc half ">=" true 2) (v 2 4) (v (-1) 4) &&
  multiset_eqb (v 2 4) (v 7 2) && nonempty (v 2 4) = true.
Proof. vm_compute. reflexivity. Qed.

Print Assumptions ex_call_hyps.
Print Assumptions ex_call_hyps_swapped.
Print Assumptions code_transpose_instance.
Print Assumptions code_transpose_computed.
Print Assumptions code_refine_instance.
Print Assumptions code_refine_computed.
Print Assumptions code_partition_instance.
Print Assumptions code_partition_computed.
Print Assumptions code_njobs_instance.
Print Assumptions code_njobs_computed.
