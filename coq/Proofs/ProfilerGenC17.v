(* C17 (profiler) restated about the GENERATED profile_table_for_join_rows (Gen/ProfilerGen.v), via
   the refinement Proofs/ProfilerRefine.v and the model facts ProfilerFacts / ProfilerPercent:

   on every well-formed table with 1 <= n < 2^31 rows and every accepted attribute list, the value the
   generated function returns is  render_rows sf rs  with one row per requested attribute, in order
   (C17_gen_rows), and in every row
     - the counts are the number of classes of the column's PRESENT cells under pandas' hashtable
       equality, plus one if a cell is missing (= the number of distinct value ids, a missing value
       counting as ONE value however it is spelled: None and NaN may both occur) and the number of cells
       with pd.isnull (C17_gen_counts; when the missing cells are all spelled the same way that is the
       number of classes of all cells, C17_gen_counts_one_spelling),
     - the comment is the key recommendation iff all values are distinct and none is missing, and the
       ignored-rows warning iff some value is missing (C17_gen_comments),
     - the percentages are within 0.005 + 1e-9 of 100 * count / n (C17_gen_percent; Reals axioms),
     - and the percentages cannot replace the counts (C17_gen_percentages_not_decisive).
   str(float) is the parameter sf: the statements are about the doubles handed to it.           *)
From Coq Require Import ZArith Bool List String SpecFloat Lia Reals.
From SSJ Require Import F64 PyNum F64Spec Frame ProfFrame Profiler ProfilerSpec ProfilerFacts ProfilerPercent
     ProfilerGen Projection ProjectionFacts WrapperRefineFrame ProfilerRefineUniq ProfilerRefineBase
     ProfilerRefine.
Import ListNotations.
Open Scope string_scope.
Open Scope Z_scope.

Definition key_text : string := "This attribute can be used as a key attribute.".
Definition warn_text (stat : string) : string := "Joining on this attribute will ignore " ++ stat ++ " rows.".

(* the attributes that are profiled *)
Definition requested (cols : list string) (attrs : option (list string)) : list string :=
  match attrs with Some l => l | None => cols end.

(* ------------------------------------------------------------------ the comment texts are distinct *)
Lemma comment_text_key sf r : comment_text sf r = key_text <-> p_cmt r = CmtKey.
Proof.
  unfold comment_text, key_text. destruct (p_cmt r); split; intros H; try reflexivity; try discriminate.
Qed.

Lemma comment_text_warn sf r : (exists s, comment_text sf r = warn_text s) <-> p_cmt r = CmtMissing.
Proof.
  unfold comment_text, warn_text. destruct (p_cmt r); split; intros H; try reflexivity; try discriminate.
  - destruct H as (s & H). discriminate.
  - eexists. reflexivity.
  - destruct H as (s & H). discriminate.
Qed.

Lemma comment_text_warn_stat sf r : p_cmt r = CmtMissing ->
  comment_text sf r = warn_text (fmt_stat sf (p_m r) (p_mpct r)).
Proof. unfold comment_text. intros ->. reflexivity. Qed.

(* ------------------------------------------------------------------ the returned rows *)
Lemma known_refl cols : known cols cols = true.
Proof. apply known_In. intros a H; exact H. Qed.

Theorem C17_gen_rows :
  forall (sf : f64 -> string) (cols : list string) (rows : list (list pyval))
         (ids : string -> column) (attrs : option (list string)),
    wf_table cols rows ids ->
    1 <= Z.of_nat (List.length rows) < 2 ^ 31 ->
    known cols (requested cols attrs) = true ->
    profile_table_for_join_rows sf (sframe cols rows) (py_opt_strs attrs)
    = render_rows sf (model_rows (Z.of_nat (List.length rows)) ids (requested cols attrs)).
Proof.
  intros sf cols rows ids attrs Hwf Hn Hk.
  rewrite (profile_table_for_join_rows_explicit sf cols rows ids attrs Hwf).
  2:{ assert (2 ^ 31 < 2 ^ 53) by (apply Z.pow_lt_mono_r; lia). lia. }
  unfold explicit_result, requested in *.
  assert (E : forall l, explicit_rows sf (Z.of_nat (List.length rows)) ids l
                        = render_rows sf (model_rows (Z.of_nat (List.length rows)) ids l)).
  { intros l. unfold explicit_rows. destruct l; [reflexivity|].
    destruct (Z.of_nat (List.length rows) =? 0) eqn:E0; [apply Z.eqb_eq in E0; lia | reflexivity]. }
  destruct attrs as [l|]; [rewrite Hk|]; apply E.
Qed.

Lemma model_rows_names n ids l : map fst (model_rows n ids l) = l.
Proof. unfold model_rows. rewrite map_map. cbn [fst]. apply map_id. Qed.

Lemma model_rows_In n ids l a r : In (a, r) (model_rows n ids l) ->
  In a l /\ r = profile_column n (ids a).
Proof.
  unfold model_rows. intros H. apply in_map_iff in H. destruct H as (b & E & Hb).
  inversion E; subst. split; [exact Hb | reflexivity].
Qed.

(* ------------------------------------------------------------------ per-row facts *)
Section Rows.
  Variables (cols : list string) (rows : list (list pyval)) (ids : string -> column).
  Hypothesis Hwf : wf_table cols rows ids.
  Let n := Z.of_nat (List.length rows).
  Hypothesis Hn : 1 <= n < 2 ^ 31.

  Lemma ids_length a : In a cols -> Z.of_nat (List.length (ids a)) = n.
  Proof.
    intros Ha. destruct Hwf as (_ & _ & Habs).
    rewrite <- (abstracts_length _ _ (Habs a Ha)). unfold col_cells. now rewrite map_length.
  Qed.

  Lemma ids_range a : In a cols -> counts_range n (n_unique (ids a)) (n_missing (ids a)).
  Proof.
    intros Ha. pose proof (ids_length a Ha) as Hl. rewrite <- Hl.
    apply column_counts_range; [|lia].
    intros E. rewrite E in Hl. cbn [List.length] in Hl. lia.
  Qed.

  (* the counts *)
  Theorem C17_gen_counts : forall a, In a cols ->
    let r := profile_column n (ids a) in
    let cells := col_cells cols rows a in
    p_u r = Z.of_nat (List.length (uniq_cells (filter present cells))) + (if 0 <? p_m r then 1 else 0) /\
    distinct_count (ids a) (p_u r) /\
    p_m r = Z.of_nat (List.length (filter cell_missing cells)) /\ missing_count (ids a) (p_m r).
  Proof.
    intros a Ha r cells. destruct Hwf as (_ & _ & Habs). specialize (Habs a Ha).
    destruct (C17_counts n (ids a)) as [Hd Hm]. fold r in Hd, Hm.
    repeat split; try assumption.
    - subst r cells. unfold profile_column, profile_counts. cbn [p_u p_m].
      rewrite <- (nunique_present_abstracts _ _ Habs). unfold nunique_present. rewrite nunique_spec.
      reflexivity.
    - subst r cells. unfold profile_column, profile_counts. cbn [p_m].
      rewrite <- (nmissing_abstracts _ _ Habs). reflexivity.
  Qed.

  (* one spelling of the missing value in the column: the number of classes of ALL cells *)
  Theorem C17_gen_counts_one_spelling : forall a, In a cols ->
    one_spelling (col_cells cols rows a) (ids a) ->
    p_u (profile_column n (ids a)) = Z.of_nat (List.length (uniq_cells (col_cells cols rows a))).
  Proof.
    intros a Ha H1. destruct Hwf as (_ & _ & Habs). specialize (Habs a Ha).
    unfold profile_column, profile_counts. cbn [p_u].
    rewrite <- (nunique_abstracts _ _ Habs H1), nunique_spec. reflexivity.
  Qed.

  (* the comments: key recommendation iff all distinct and none missing; warning iff one is missing *)
  Theorem C17_gen_comments : forall (sf : f64 -> string) a, In a cols ->
    let r := profile_column n (ids a) in
    (comment_text sf r = key_text <-> (p_u r = n /\ p_m r = 0)) /\
    ((exists s, comment_text sf r = warn_text s) <-> p_m r > 0) /\
    (p_m r > 0 -> comment_text sf r = warn_text (fmt_stat sf (p_m r) (p_mpct r))).
  Proof.
    intros sf a Ha r.
    destruct (C17_comments n (n_unique (ids a)) (n_missing (ids a)) (ids_range a Ha)) as [Hk Hw].
    change (profile_counts n (n_unique (ids a)) (n_missing (ids a))) with r in Hk, Hw.
    assert (Eu : p_u r = n_unique (ids a)) by reflexivity.
    assert (Em : p_m r = n_missing (ids a)) by reflexivity.
    rewrite Eu, Em. split; [|split].
    - rewrite comment_text_key. exact Hk.
    - rewrite comment_text_warn. exact Hw.
    - intros H. apply comment_text_warn_stat. apply Hw. exact H.
  Qed.

  (* the percentages *)
  Theorem C17_gen_percent : forall a, In a cols ->
    let r := profile_column n (ids a) in
    fin (p_upct r) /\ (Rabs (FR (p_upct r) - 100 * (IZR (p_u r) / IZR n)) <= pct_tol)%R /\
    fin (p_mpct r) /\ (Rabs (FR (p_mpct r) - 100 * (IZR (p_m r) / IZR n)) <= pct_tol)%R.
  Proof.
    intros a Ha r. destruct (ids_range a Ha) as (H1 & H2 & H3).
    destruct (C17_percent (n_unique (ids a)) n H1) as [F1 B1]; [lia|].
    destruct (C17_percent (n_missing (ids a)) n H1) as [F2 B2]; [lia|].
    split; [exact F1 | split; [exact B1 | split; [exact F2 | exact B2]]].
  Qed.
End Rows.

(* all of it about the value the generated function returns *)
Theorem C17_generated :
  forall (sf : f64 -> string) (cols : list string) (rows : list (list pyval))
         (ids : string -> column) (attrs : option (list string)),
    wf_table cols rows ids ->
    let n := Z.of_nat (List.length rows) in
    1 <= n < 2 ^ 31 ->
    known cols (requested cols attrs) = true ->
    exists rs : list (string * prow),
      profile_table_for_join_rows sf (sframe cols rows) (py_opt_strs attrs) = render_rows sf rs /\
      map fst rs = requested cols attrs /\
      forall a r, In (a, r) rs ->
        let cells := col_cells cols rows a in
        p_u r = Z.of_nat (List.length (uniq_cells (filter present cells))) + (if 0 <? p_m r then 1 else 0) /\
        distinct_count (ids a) (p_u r) /\
        p_m r = Z.of_nat (List.length (filter cell_missing cells)) /\ missing_count (ids a) (p_m r) /\
        (comment_text sf r = key_text <-> (p_u r = n /\ p_m r = 0)) /\
        ((exists s, comment_text sf r = warn_text s) <-> p_m r > 0) /\
        fin (p_upct r) /\ (Rabs (FR (p_upct r) - 100 * (IZR (p_u r) / IZR n)) <= pct_tol)%R /\
        fin (p_mpct r) /\ (Rabs (FR (p_mpct r) - 100 * (IZR (p_m r) / IZR n)) <= pct_tol)%R.
Proof.
  intros sf cols rows ids attrs Hwf n Hn Hk.
  exists (model_rows n ids (requested cols attrs)).
  split; [apply C17_gen_rows; assumption|]. split; [apply model_rows_names|].
  intros a r Hin cells. apply model_rows_In in Hin. destruct Hin as [Ha ->].
  assert (Hc : In a cols) by (apply (proj1 (known_In cols _) Hk); exact Ha).
  destruct (C17_gen_counts cols rows ids Hwf a Hc) as (C1 & C2 & C3 & C4).
  destruct (C17_gen_comments cols rows ids Hwf Hn sf a Hc) as (K1 & K2 & _).
  destruct (C17_gen_percent cols rows ids Hwf Hn a Hc) as (P1 & P2 & P3 & P4).
  split; [exact C1|]. split; [exact C2|]. split; [exact C3|]. split; [exact C4|].
  split; [exact K1|]. split; [exact K2|]. split; [exact P1|]. split; [exact P2|].
  split; [exact P3 | exact P4].
Qed.

(* why the comments must come from the counts: with 20001 rows, 20000 distinct values and the full
   20001 produce the same percentage double (so the same string, whatever str_float is), but different
   comments; likewise one missing value and none *)
Theorem C17_gen_percentages_not_decisive :
  exists n u, counts_range n u 0 /\ u < n /\
    forall sf : f64 -> string,
      sf (p_upct (profile_counts n u 0)) = sf (p_upct (profile_counts n n 0)) /\
      comment_text sf (profile_counts n n 0) = key_text /\
      comment_text sf (profile_counts n u 0) = "" /\
      sf (p_mpct (profile_counts n n 1)) = sf (p_mpct (profile_counts n n 0)) /\
      comment_text sf (profile_counts n n 1) <> comment_text sf (profile_counts n n 0).
Proof.
  exists 20001, 20000. split; [unfold counts_range; lia|]. split; [lia|]. intros sf.
  assert (E1 : pct 20000 20001 = pct 20001 20001) by (vm_compute; reflexivity).
  assert (E2 : pct 1 20001 = pct 0 20001) by (vm_compute; reflexivity).
  unfold profile_counts. cbn [p_upct p_mpct]. rewrite E1, E2.
  repeat split; try reflexivity. intros H. discriminate H.
Qed.

Print Assumptions C17_gen_rows.
Print Assumptions C17_gen_counts.
Print Assumptions C17_gen_counts_one_spelling.
Print Assumptions C17_gen_comments.
Print Assumptions C17_gen_percent.
Print Assumptions C17_generated.
Print Assumptions C17_gen_percentages_not_decisive.
