(* Evaluation of the GENERATED filter_utils formulas at sim_measure_type = "EDIT_DISTANCE" with an
   integer threshold, and the prefix-filter safety lemma for sorted bags under the q-gram count
   filter.  Integers and lists only (axiom-free).                                           *)
From Coq Require Import ZArith Bool List String Lia Sorted.
From SSJ Require Import F64 PyNum FilterUtilsGen HelperGen TokenOrdering Filters Prefix BagFacts
                        PyFacts PositionSafe.
Import ListNotations.
Open Scope string_scope.
Open Scope Z_scope.

Definition edp (q tau : Z) : fparams := {| fm := "EDIT_DISTANCE"; ft := PInt tau; fq := q |}.

(* ------------------------------------------------------------------ *)
(* the generated functions at "EDIT_DISTANCE" (any threshold value): the threshold enters  *)
(* only through int(floor(threshold)) (source repair: float thresholds are normalised)     *)

Lemma get_lb_ed n t :
  get_size_lower_bound n (PStr "EDIT_DISTANCE") t = py_sub n (py_int (py_floor t)).
Proof. reflexivity. Qed.

Lemma get_ub_ed n t :
  get_size_upper_bound n (PStr "EDIT_DISTANCE") t = py_add n (py_int (py_floor t)).
Proof. reflexivity. Qed.

Lemma get_pl_ed n t q :
  get_prefix_length (PInt n) (PStr "EDIT_DISTANCE") t q =
  if n =? 0 then PInt 0 else py_min (py_add (py_mul q (py_int (py_floor t))) (PInt 1)) (PInt n).
Proof. destruct n; reflexivity. Qed.

Lemma get_ot_ed a b t q :
  get_overlap_threshold a b (PStr "EDIT_DISTANCE") t q =
  py_sub (py_add (py_sub (py_max (py_sub (py_add a q) (PInt 1)) (py_sub (py_add b q) (PInt 1))) q)
                 (PInt 1)) (py_mul q (py_int (py_floor t))).
Proof. reflexivity. Qed.

Lemma py_min_int a b : py_min (PInt a) (PInt b) = PInt (Z.min a b).
Proof.
  unfold py_min, py_lt, py_ord, strict2, ord_cmp, num_of, num_cmp, py_truth.
  destruct (Z.compare_spec b a); f_equal; lia.
Qed.

Lemma py_max_int a b : py_max (PInt a) (PInt b) = PInt (Z.max a b).
Proof.
  unfold py_max, py_gt, py_ord, strict2, ord_cmp, num_of, num_cmp, py_truth.
  destruct (Z.compare_spec b a); f_equal; lia.
Qed.

(* ------------------------------------------------------------------ *)
(* (A) closed integer forms                                            *)

Theorem g_lb_ed q tau n : g_lb (edp q tau) n = PInt (n - tau).
Proof. reflexivity. Qed.

Theorem g_ub_ed q tau n : g_ub (edp q tau) n = PInt (n + tau).
Proof. reflexivity. Qed.

Theorem g_pl_ed q tau n : 0 <= tau -> 1 <= q -> 0 <= n ->
  g_pl (edp q tau) n = PInt (Z.min (q * tau + 1) n).
Proof.
  intros Ht Hq Hn. unfold g_pl, edp. cbn [fm ft fq]. rewrite get_pl_ed.
  destruct (Z.eqb_spec n 0) as [->|Hne].
  - f_equal. assert (0 <= q * tau) by (apply Z.mul_nonneg_nonneg; lia). lia.
  - change (py_add (py_mul (PInt q) (py_int (py_floor (PInt tau)))) (PInt 1)) with (PInt (q * tau + 1)).
    apply py_min_int.
Qed.

Theorem g_ot_ed q tau a b :
  g_ot (edp q tau) a b = PInt (Z.max (a + q - 1) (b + q - 1) - q + 1 - q * tau).
Proof.
  unfold g_ot, edp. cbn [fm ft fq]. rewrite get_ot_ed.
  change (py_sub (py_add (PInt a) (PInt q)) (PInt 1)) with (PInt (a + q - 1)).
  change (py_sub (py_add (PInt b) (PInt q)) (PInt 1)) with (PInt (b + q - 1)).
  rewrite py_max_int. reflexivity.
Qed.

Corollary g_ot_ed' q tau a b : g_ot (edp q tau) a b = PInt (Z.max a b - q * tau).
Proof. rewrite g_ot_ed. f_equal. lia. Qed.

(* the size window of the generated bounds *)
Lemma in_window_ed q tau n m :
  in_window (g_lb (edp q tau) n) (g_ub (edp q tau) n) m = (n - tau <=? m) && (m <=? n + tau).
Proof.
  rewrite g_lb_ed, g_ub_ed. unfold in_window. rewrite !py_le_int_val. apply py_and_bool.
Qed.

(* ------------------------------------------------------------------ *)
(* share                                                               *)

Lemma share_true_iff a b : share a b = true <-> exists w, In w a /\ In w b.
Proof.
  unfold share. rewrite existsb_exists. split.
  - intros [w [Ha Hb]]. exists w. split; [exact Ha|]. rewrite memZ_mem in Hb. apply mem_In. exact Hb.
  - intros [w [Ha Hb]]. exists w. split; [exact Ha|]. rewrite memZ_mem. apply mem_In. exact Hb.
Qed.

Lemma share_false_disj a b : share a b = false -> forall v, In v a -> In v b -> False.
Proof.
  intros H v Ha Hb. assert (E : share a b = true) by (apply share_true_iff; exists v; auto).
  congruence.
Qed.

Lemma share_sym a b : share a b = share b a.
Proof.
  apply eq_true_iff_eq. rewrite !share_true_iff. split; intros [w [H1 H2]]; exists w; auto.
Qed.

Lemma share_firstn_l n a b : share (firstn n a) b = true -> share a b = true.
Proof.
  rewrite !share_true_iff. intros [w [H1 H2]]. exists w. split; [|exact H2].
  rewrite <- (firstn_skipn n a). apply in_or_app. left; exact H1.
Qed.

Lemma share_ovl a b : share a b = true <-> (1 <= ovl a b)%nat.
Proof.
  rewrite share_true_iff. split.
  - intros [w [Ha Hb]].
    apply (ovl_common [w]); intros v; simpl; destruct (Z.eq_dec w v) as [<-|_]; try lia.
    + apply (count_occ_In Z.eq_dec) in Ha. lia.
    + apply (count_occ_In Z.eq_dec) in Hb. lia.
  - unfold ovl. intros H. destruct (binter a b) as [|w l] eqn:E; [simpl in H; lia|].
    exists w.
    assert (Hc : (1 <= cnt (binter a b) w)%nat).
    { rewrite E. simpl. destruct (Z.eq_dec w w); [lia|congruence]. }
    rewrite cnt_binter in Hc.
    split; apply (count_occ_In Z.eq_dec); lia.
Qed.

(* ------------------------------------------------------------------ *)
(* (B) prefix-filter safety on sorted bags                             *)

Definition edpl (q tau : Z) (X : list Z) : nat := Z.to_nat (Z.min (q * tau + 1) (len X)).

Lemma prefix_cand_ed q tau X Y : 0 <= tau -> 1 <= q ->
  prefix_cand (edp q tau) X Y = Some (share (firstn (edpl q tau Y) Y) (firstn (edpl q tau X) X)).
Proof.
  intros Ht Hq. unfold prefix_cand, len.
  rewrite !g_pl_ed by lia. unfold slice0.
  assert (0 <= q * tau) by (apply Z.mul_nonneg_nonneg; lia).
  destruct (Z.ltb_spec (Z.min (q * tau + 1) (Z.of_nat (List.length X))) 0); [lia|].
  destruct (Z.ltb_spec (Z.min (q * tau + 1) (Z.of_nat (List.length Y))) 0); [lia|].
  reflexivity.
Qed.

Lemma ed_prefix_share q tau X Y :
  Sorted Z.le X -> Sorted Z.le Y -> 0 <= tau -> 1 <= q ->
  Z.max (len X) (len Y) - q * tau <= Z.of_nat (ovl X Y) ->
  (1 <= ovl X Y)%nat ->
  share (firstn (edpl q tau X) X) (firstn (edpl q tau Y) Y) = true.
Proof.
  intros HsX HsY Ht Hq Hcf Hov.
  destruct (share (firstn (edpl q tau X) X) (firstn (edpl q tau Y) Y)) eqn:E; [reflexivity|exfalso].
  pose proof (share_false_disj _ _ E) as Hdisj.
  assert (Hqt : 0 <= q * tau) by (apply Z.mul_nonneg_nonneg; lia).
  pose proof (ovl_le_l X Y) as HlX. pose proof (ovl_le_r X Y) as HlY.
  set (kx := edpl q tau X) in *. set (ky := edpl q tau Y) in *.
  assert (Hkx : (1 <= kx <= List.length X)%nat) by (unfold kx, edpl, len; lia).
  assert (Hky : (1 <= ky <= List.length Y)%nat) by (unfold ky, edpl, len; lia).
  assert (HnX : firstn kx X <> []).
  { intro E0. apply (f_equal (@List.length Z)) in E0. rewrite firstn_length in E0. simpl in E0. lia. }
  assert (HnY : firstn ky Y <> []).
  { intro E0. apply (f_equal (@List.length Z)) in E0. rewrite firstn_length in E0. simpl in E0. lia. }
  pose proof (prefix_lemma (firstn kx X) (skipn kx X) (firstn ky Y) (skipn ky Y)) as PL.
  rewrite !firstn_skipn in PL. specialize (PL HsX HsY HnX HnY Hdisj).
  rewrite !skipn_length in PL.
  unfold kx, ky, edpl, len in *. lia.
Qed.

Theorem ed_prefix_safe q tau X Y :
  Sorted Z.le X -> Sorted Z.le Y -> 0 <= tau -> 1 <= q ->
  Z.max (len X) (len Y) - q * tau <= Z.of_nat (ovl X Y) ->
  (1 <= ovl X Y)%nat ->
  prefix_cand (edp q tau) X Y = Some true.
Proof.
  intros HsX HsY Ht Hq Hcf Hov. rewrite prefix_cand_ed by assumption. f_equal.
  rewrite share_sym. apply ed_prefix_share; assumption.
Qed.

(* conversely a prefix candidate shares a value *)
Lemma prefix_cand_ed_share q tau X Y : 0 <= tau -> 1 <= q ->
  prefix_cand (edp q tau) X Y = Some true -> share X Y = true.
Proof.
  intros Ht Hq. rewrite prefix_cand_ed by assumption. intros H. injection H as H.
  apply share_firstn_l in H. rewrite share_sym in H. apply share_firstn_l in H. exact H.
Qed.

(* non-vacuity *)
Example g_pl_ed_ex : g_pl (edp 2 1) 4 = PInt 3 /\ g_pl (edp 2 1) 0 = PInt 0 /\
                     g_lb (edp 2 1) 4 = PInt 3 /\ g_ub (edp 2 1) 4 = PInt 5 /\
                     g_ot (edp 2 1) 4 5 = PInt 3.
Proof. vm_compute. auto. Qed.
Example ed_prefix_safe_ex : prefix_cand (edp 2 1) [1; 2; 3; 7] [2; 3; 7; 9] = Some true.
Proof.
  apply ed_prefix_safe.
  - repeat (constructor; try lia).
  - repeat (constructor; try lia).
  - lia.
  - lia.
  - apply Z.leb_le. vm_compute. reflexivity.
  - apply Nat.leb_le. vm_compute. reflexivity.
Qed.

Print Assumptions g_pl_ed.
Print Assumptions g_ot_ed.
Print Assumptions in_window_ed.
Print Assumptions ed_prefix_safe.
Print Assumptions prefix_cand_ed_share.
