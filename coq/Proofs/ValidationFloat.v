(* The exact acceptance set of the GENERATED validate_threshold for FLOAT thresholds, for every
   binary64 value: NaN, the infinities and the signed zeros included.

   validation.py states its range tests positively (`if not threshold >= 0`, `if not threshold > 0`,
   `if not (threshold > 0 and threshold <= 1)`), so a NaN -- for which every ordered comparison is
   False -- is REJECTED.  Python compares the float with the int literals 0 and 1 exactly (cmp_Z_f);
   this file shows that these comparisons are the IEEE comparisons of Num/F64.v (fleb / fltb = SFleb /
   SFltb) with the doubles 0.0 and 1.0.  For `<= 1` this needs the float to be a double
   (valid_binary: canonical mantissa / exponent), because SFcompare compares exponents first; the
   comparisons with 0 hold for every spec_float.

   Z / positive / SpecFloat case analysis only: closed under the global context.                 *)
From Coq Require Import ZArith Bool List String Lia SpecFloat.
From SSJ Require Import F64 PyNum ValidationGen PyFacts Measures LawsCanon ValidationFacts.
Import ListNotations.
Open Scope string_scope.
Open Scope Z_scope.

Definition f_zero : f64 := S754_zero false.
Lemma f_zero_of_Z : f_zero = f_of_Z 0.
Proof. reflexivity. Qed.
Lemma f_one_bits : f_one = S754_finite false 4503599627370496 (-52).
Proof. vm_compute. reflexivity. Qed.

(* ------------------------------------------------------------------ int literal vs float = IEEE *)
Lemma pow_pos_ge1 p : 1 <= Z.pow_pos 2 p.
Proof. pose proof (LawsCanon.pow_pos_gt0 p). lia. Qed.

(* `f ? 0` as Python evaluates it (exact comparison with the int 0) is SFcompare with +0.0: any f *)
Lemma cmp_f_0 f : option_map CompOpp (cmp_Z_f 0 f) = SFcompare f f_zero.
Proof.
  destruct f as [s|s| |s m e]; try (destruct s; reflexivity); try reflexivity.
  unfold cmp_Z_f, f_zero, SFcompare.
  destruct e as [|p|p]; cbn [option_map]; f_equal.
  - destruct s; reflexivity.
  - assert (0 < 2 ^ Z.pos p) by (apply Z.pow_pos_nonneg; lia).
    destruct s.
    + assert (E : (0 ?= Z.neg m * 2 ^ Z.pos p) = Gt) by (apply Z.compare_gt_iff; nia). rewrite E. reflexivity.
    + assert (E : (0 ?= Z.pos m * 2 ^ Z.pos p) = Lt) by (apply Z.compare_lt_iff; nia). rewrite E. reflexivity.
  - destruct s; reflexivity.
Qed.
Lemma cmp_0_f f : cmp_Z_f 0 f = SFcompare f_zero f.
Proof.
  destruct f as [s|s| |s m e]; try (destruct s; reflexivity); try reflexivity.
  unfold cmp_Z_f, f_zero, SFcompare.
  destruct e as [|p|p]; f_equal.
  - destruct s; reflexivity.
  - assert (0 < 2 ^ Z.pos p) by (apply Z.pow_pos_nonneg; lia).
    destruct s.
    + apply Z.compare_gt_iff; nia.
    + apply Z.compare_lt_iff; nia.
  - destruct s; reflexivity.
Qed.

(* what validity says about the mantissa of a double *)
Lemma canon_mantissa m e : canonical_mantissa prec emax m e = true ->
  Z.pos m < 9007199254740992 /\ (-1074 < e -> 4503599627370496 <= Z.pos m).
Proof.
  unfold canonical_mantissa, fexp, emin, prec, emax. intros H. apply Zeq_bool_eq in H.
  rewrite digits2_log2 in H.
  destruct (Z.log2_spec (Z.pos m) ltac:(lia)) as [L U].
  split.
  - assert (Hl : Z.succ (Z.log2 (Z.pos m)) <= 53) by lia.
    apply (Z.pow_le_mono_r 2) in Hl; [|lia]. change (2 ^ 53) with 9007199254740992 in Hl. lia.
  - intros He. assert (Hl : Z.log2 (Z.pos m) = 52) by lia. rewrite Hl in L.
    change (2 ^ 52) with 4503599627370496 in L. exact L.
Qed.

(* `f ? 1` as Python evaluates it is SFcompare with 1.0, for every DOUBLE f *)
Lemma cmp_f_1 f : valid_binary prec emax f = true ->
  option_map CompOpp (cmp_Z_f 1 f) = SFcompare f f_one.
Proof.
  intros V. rewrite f_one_bits.
  destruct f as [s|s| |s m e]; try (destruct s; reflexivity); try reflexivity.
  cbn [valid_binary] in V. unfold bounded in V. apply andb_true_iff in V. destruct V as [C _].
  destruct (canon_mantissa m e C) as [Hu Hl].
  unfold cmp_Z_f, SFcompare. cbn [option_map]. f_equal.
  destruct s.
  - (* negative: below 1 *)
    destruct e as [|p|p].
    + reflexivity.
    + assert (0 < 2 ^ Z.pos p) by (apply Z.pow_pos_nonneg; lia).
      assert (E : (1 ?= Z.neg m * 2 ^ Z.pos p) = Gt) by (apply Z.compare_gt_iff; nia). rewrite E. reflexivity.
    + pose proof (pow_pos_ge1 p).
      assert (E : (1 * Z.pow_pos 2 p ?= Z.neg m) = Gt) by (apply Z.compare_gt_iff; lia). rewrite E. reflexivity.
  - destruct e as [|p|p].
    + (* e = 0: m >= 2^52 > 1 *)
      assert (E : (1 ?= Z.pos m * 2 ^ 0) = Lt) by (apply Z.compare_lt_iff; lia). rewrite E. reflexivity.
    + assert (0 < 2 ^ Z.pos p) by (apply Z.pow_pos_nonneg; lia).
      assert (E : (1 ?= Z.pos m * 2 ^ Z.pos p) = Lt) by (apply Z.compare_lt_iff; nia). rewrite E. reflexivity.
    + rewrite Z.mul_1_l. rewrite Z.pow_pos_fold.
      destruct (Z.compare_spec (Z.neg p) (-52)) as [E|E|E].
      * (* e = -52: compare the mantissas *)
        injection E as ->. change (2 ^ Z.pos 52) with (Z.pos 4503599627370496).
        generalize 4503599627370496%positive. intros K.
        cbn [option_map]. f_equal.
        change (Z.pos K ?= Z.pos m) with (Pos.compare_cont Eq K m).
        exact (Pos.compare_cont_antisym K m Eq).
      * (* e < -52: m < 2^53 <= 2^p *)
        assert (Hp : 53 <= Z.pos p) by lia.
        apply (Z.pow_le_mono_r 2) in Hp; [|lia]. change (2 ^ 53) with 9007199254740992 in Hp.
        assert (E2 : (2 ^ Z.pos p ?= Z.pos m) = Gt) by (apply Z.compare_gt_iff; lia). rewrite E2. reflexivity.
      * (* -52 < e < 0: 2^p <= 2^51 < 2^52 <= m *)
        assert (Hp : Z.pos p <= 51) by lia.
        apply (Z.pow_le_mono_r 2) in Hp; [|lia]. change (2 ^ 51) with 2251799813685248 in Hp.
        specialize (Hl ltac:(lia)).
        assert (E2 : (2 ^ Z.pos p ?= Z.pos m) = Lt) by (apply Z.compare_lt_iff; lia). rewrite E2. reflexivity.
Qed.

(* ------------------------------------------------------------------ the three Python comparisons *)
Lemma py_ge_float_0 f : py_ge (PFloat f) (PInt 0) = PBool (fleb f_zero f).
Proof.
  unfold py_ge, py_ord, strict2, ord_cmp, num_of, num_cmp, fleb, SFleb.
  rewrite <- cmp_0_f. destruct (cmp_Z_f 0 f) as [[]|]; reflexivity.
Qed.
Lemma py_gt_float_0 f : py_gt (PFloat f) (PInt 0) = PBool (fltb f_zero f).
Proof.
  unfold py_gt, py_ord, strict2, ord_cmp, num_of, num_cmp, fltb, SFltb.
  rewrite <- cmp_0_f. destruct (cmp_Z_f 0 f) as [[]|]; reflexivity.
Qed.
Lemma py_le_float_1 f : valid_binary prec emax f = true ->
  py_le (PFloat f) (PInt 1) = PBool (fleb f f_one).
Proof.
  intros V. unfold py_le, py_ord, strict2, ord_cmp, num_of, num_cmp, fleb, SFleb.
  rewrite (cmp_f_1 f V). destruct (SFcompare f f_one) as [[]|]; reflexivity.
Qed.
(* the OLD tests `threshold < 0` / `threshold <= 0`, for comparison: False on NaN *)
Lemma py_lt_float_0 f : py_lt (PFloat f) (PInt 0) = PBool (fltb f f_zero).
Proof.
  unfold py_lt, py_ord, strict2, ord_cmp, num_of, num_cmp, fltb, SFltb.
  rewrite cmp_f_0. destruct (SFcompare f f_zero) as [[]|]; reflexivity.
Qed.

(* ------------------------------------------------------------------ validate_threshold on floats *)
Lemma vt_edit_distance_float f :
  validate_threshold (PFloat f) (PStr "EDIT_DISTANCE") = if fleb f_zero f then ok else rejected.
Proof.
  unfold validate_threshold. cbn [py_eq strict2 pv_eqb bindx py_truth String.eqb Ascii.eqb Bool.eqb].
  rewrite py_ge_float_0. destruct (fleb f_zero f); reflexivity.
Qed.
Lemma vt_overlap_float f :
  validate_threshold (PFloat f) (PStr "OVERLAP") = if fltb f_zero f then ok else rejected.
Proof.
  unfold validate_threshold. cbn [py_eq strict2 pv_eqb bindx py_truth String.eqb Ascii.eqb Bool.eqb].
  rewrite py_gt_float_0. destruct (fltb f_zero f); reflexivity.
Qed.
(* the (0, 1] class; without validity the second test stays Python's exact `f <= 1` *)
Lemma vt_unit_float_raw f m :
  String.eqb m "EDIT_DISTANCE" = false -> String.eqb m "OVERLAP" = false ->
  validate_threshold (PFloat f) (PStr m) =
  if fltb f_zero f && py_truth (py_le (PFloat f) (PInt 1)) then ok else rejected.
Proof.
  intros H1 H2. unfold validate_threshold. cbn [py_eq strict2 pv_eqb bindx py_truth].
  rewrite H1, H2. cbn [bindx py_truth]. rewrite py_gt_float_0.
  destruct (fltb f_zero f); cbn [py_and py_truth andb].
  - assert (E : exists b, py_le (PFloat f) (PInt 1) = PBool b).
    { unfold py_le, py_ord, strict2, ord_cmp, num_of, num_cmp.
      destruct (option_map CompOpp (cmp_Z_f 1 f)) as [[]|]; eexists; reflexivity. }
    destruct E as [b E]. rewrite E. destruct b; reflexivity.
  - reflexivity.
Qed.
Lemma vt_unit_float f m : valid_binary prec emax f = true ->
  String.eqb m "EDIT_DISTANCE" = false -> String.eqb m "OVERLAP" = false ->
  validate_threshold (PFloat f) (PStr m) = if fltb f_zero f && fleb f f_one then ok else rejected.
Proof.
  intros V H1 H2. rewrite (vt_unit_float_raw f m H1 H2), (py_le_float_1 f V). reflexivity.
Qed.

(* float thresholds: exactly the documented ranges, NaN rejected, -0.0 = 0, +inf above every bound.
   The first, second and fourth parts hold for EVERY spec_float; the third for every double. *)
Theorem threshold_float_ranges (f : f64) :
  (validate_threshold (PFloat f) (PStr "EDIT_DISTANCE") = ok <-> fleb f_zero f = true) /\
  (validate_threshold (PFloat f) (PStr "OVERLAP") = ok <-> fltb f_zero f = true) /\
  (forall m, String.eqb m "EDIT_DISTANCE" = false -> String.eqb m "OVERLAP" = false ->
             valid_binary prec emax f = true ->
             (validate_threshold (PFloat f) (PStr m) = ok <-> fltb f_zero f = true /\ fleb f f_one = true)) /\
  (forall m, validate_threshold (PFloat f) (PStr m) = ok \/ validate_threshold (PFloat f) (PStr m) = rejected).
Proof.
  split; [|split; [|split]].
  - rewrite vt_edit_distance_float. destruct (fleb f_zero f); split; intros; try discriminate; reflexivity.
  - rewrite vt_overlap_float. destruct (fltb f_zero f); split; intros; try discriminate; reflexivity.
  - intros m H1 H2 V. rewrite (vt_unit_float f m V H1 H2).
    destruct (fltb f_zero f); destruct (fleb f f_one); cbn [andb]; split;
      try (intros [? ?]); intros; try discriminate; try reflexivity; split; reflexivity.
  - intros m. destruct (String.eqb m "EDIT_DISTANCE") eqn:E1.
    + apply String.eqb_eq in E1. subst. rewrite vt_edit_distance_float. destruct (fleb f_zero f); auto.
    + destruct (String.eqb m "OVERLAP") eqn:E2.
      * apply String.eqb_eq in E2. subst. rewrite vt_overlap_float. destruct (fltb f_zero f); auto.
      * rewrite (vt_unit_float_raw f m E1 E2).
        destruct (fltb f_zero f && py_truth (py_le (PFloat f) (PInt 1))); auto.
Qed.

(* NaN is rejected for every measure (in particular: never reaches the join) *)
Corollary threshold_nan_rejected m : validate_threshold (PFloat S754_nan) (PStr m) = rejected.
Proof.
  destruct (String.eqb m "EDIT_DISTANCE") eqn:E1.
  - apply String.eqb_eq in E1. subst. reflexivity.
  - destruct (String.eqb m "OVERLAP") eqn:E2.
    + apply String.eqb_eq in E2. subst. reflexivity.
    + rewrite (vt_unit_float_raw _ m E1 E2). reflexivity.
Qed.

(* an accepted float threshold is never a NaN *)
Corollary threshold_accepted_not_nan f m :
  validate_threshold (PFloat f) (PStr m) = ok -> f_is_nan f = false.
Proof.
  destruct f; try reflexivity. rewrite threshold_nan_rejected. discriminate.
Qed.

(* the tests as they were written before (`threshold < 0`, `threshold <= 0` is False; these are
   ThresholdNormFloat.thr_nonneg / thr_pos) follow from acceptance; the converse fails exactly for NaN *)
Lemma vt_edit_distance_float_old_test f :
  validate_threshold (PFloat f) (PStr "EDIT_DISTANCE") = ok -> py_truth (py_lt (PFloat f) (PInt 0)) = false.
Proof.
  rewrite vt_edit_distance_float. unfold fleb, SFleb. rewrite <- cmp_0_f.
  unfold py_lt, py_ord, strict2, ord_cmp, num_of, num_cmp.
  destruct (cmp_Z_f 0 f) as [[]|]; cbn; intros H; try reflexivity; discriminate H.
Qed.
Lemma vt_overlap_float_old_test f :
  validate_threshold (PFloat f) (PStr "OVERLAP") = ok -> py_truth (py_le (PFloat f) (PInt 0)) = false.
Proof.
  rewrite vt_overlap_float. unfold fltb, SFltb. rewrite <- cmp_0_f.
  unfold py_le, py_ord, strict2, ord_cmp, num_of, num_cmp.
  destruct (cmp_Z_f 0 f) as [[]|]; cbn; intros H; try reflexivity; discriminate H.
Qed.
Example old_tests_pass_nan :
  py_truth (py_lt (PFloat S754_nan) (PInt 0)) = false /\ py_truth (py_le (PFloat S754_nan) (PInt 0)) = false /\
  py_truth (py_or (py_le (PFloat S754_nan) (PInt 0)) (py_gt (PFloat S754_nan) (PInt 1))) = false.
Proof. vm_compute. repeat split; reflexivity. Qed.

(* ------------------------------------------------------------------ any threshold value *)
(* whatever Python value is passed as threshold of a (0, 1]-measure: if the validator does not raise,
   `threshold > 0` evaluated to True (so the threshold is a number, and not a NaN) *)
Lemma py_ord_shape test a b :
  (exists r, py_ord test a b = PBool r) \/ (exists e, py_ord test a b = PExc e).
Proof.
  unfold py_ord, strict2.
  destruct a; try (right; eexists; reflexivity);
    (destruct b; try (right; eexists; reflexivity);
     match goal with
     | |- context [ord_cmp ?x ?y] => destruct (ord_cmp x y) as [[c|]|]
     end; try (left; eexists; reflexivity); right; eexists; reflexivity).
Qed.

Lemma vt_unit_accepts_gt0 t m :
  String.eqb m "EDIT_DISTANCE" = false -> String.eqb m "OVERLAP" = false ->
  is_exc (validate_threshold t (PStr m)) = false -> py_gt t (PInt 0) = PBool true.
Proof.
  intros H1 H2 H. unfold validate_threshold in H. cbn [py_eq strict2 pv_eqb bindx py_truth] in H.
  rewrite H1, H2 in H. cbn [bindx py_truth] in H.
  destruct (py_ord_shape (fun c => match c with Gt => true | _ => false end) t (PInt 0)) as [[r E]|[e E]];
    fold py_gt in E; rewrite E in *.
  - destruct r; [reflexivity | discriminate H].
  - discriminate H.
Qed.

(* ------------------------------------------------------------------ boundary examples *)
Definition f_pinf : f64 := S754_infinity false.
Definition f_ninf : f64 := S754_infinity true.
Definition f_nzero : f64 := S754_zero true.
Definition f_min_subnormal : f64 := mkF 1 (-1074).                  (* 5e-324 *)
Definition f_one_succ : f64 := mkF 4503599627370497 (-52).          (* 1.0000000000000002 *)

Example ex_valid : valid_binary prec emax f_min_subnormal = true /\ valid_binary prec emax f_one_succ = true /\
                   valid_binary prec emax f_one = true.
Proof. vm_compute. auto. Qed.

Example ex_nan_rejected :
  validate_threshold (PFloat S754_nan) (PStr "EDIT_DISTANCE") = rejected /\
  validate_threshold (PFloat S754_nan) (PStr "OVERLAP") = rejected /\
  validate_threshold (PFloat S754_nan) (PStr "JACCARD") = rejected /\
  validate_threshold (PFloat S754_nan) (PStr "COSINE") = rejected /\
  validate_threshold (PFloat S754_nan) (PStr "DICE") = rejected /\
  validate_threshold (PFloat S754_nan) (PStr "OVERLAP_COEFFICIENT") = rejected.
Proof. vm_compute. repeat split; reflexivity. Qed.

Example ex_pinf :
  validate_threshold (PFloat f_pinf) (PStr "EDIT_DISTANCE") = ok /\
  validate_threshold (PFloat f_pinf) (PStr "OVERLAP") = ok /\
  validate_threshold (PFloat f_pinf) (PStr "JACCARD") = rejected.
Proof. vm_compute. repeat split; reflexivity. Qed.

Example ex_ninf :
  validate_threshold (PFloat f_ninf) (PStr "EDIT_DISTANCE") = rejected /\
  validate_threshold (PFloat f_ninf) (PStr "OVERLAP") = rejected /\
  validate_threshold (PFloat f_ninf) (PStr "JACCARD") = rejected.
Proof. vm_compute. repeat split; reflexivity. Qed.

Example ex_signed_zeros :
  validate_threshold (PFloat f_nzero) (PStr "EDIT_DISTANCE") = ok /\
  validate_threshold (PFloat f_zero) (PStr "EDIT_DISTANCE") = ok /\
  validate_threshold (PFloat f_nzero) (PStr "OVERLAP") = rejected /\
  validate_threshold (PFloat f_zero) (PStr "OVERLAP") = rejected /\
  validate_threshold (PFloat f_nzero) (PStr "JACCARD") = rejected /\
  validate_threshold (PFloat f_zero) (PStr "JACCARD") = rejected.
Proof. vm_compute. repeat split; reflexivity. Qed.

Example ex_one_and_successor :
  validate_threshold (PFloat f_one) (PStr "JACCARD") = ok /\
  validate_threshold (PFloat f_one_succ) (PStr "JACCARD") = rejected /\
  validate_threshold (PFloat f_one_succ) (PStr "OVERLAP") = ok /\
  validate_threshold (PFloat f_one_succ) (PStr "EDIT_DISTANCE") = ok.
Proof. vm_compute. repeat split; reflexivity. Qed.

Example ex_min_subnormal :
  validate_threshold (PFloat f_min_subnormal) (PStr "EDIT_DISTANCE") = ok /\
  validate_threshold (PFloat f_min_subnormal) (PStr "OVERLAP") = ok /\
  validate_threshold (PFloat f_min_subnormal) (PStr "JACCARD") = ok /\
  validate_threshold (PFloat f_min_subnormal) (PStr "OVERLAP_COEFFICIENT") = ok.
Proof. vm_compute. repeat split; reflexivity. Qed.

(* why the third part needs a double: a non-canonical spec_float with value 1 (mantissa 1, exponent 0)
   is accepted by Python's exact test but SFcompare orders it above 1.0 by its exponent *)
Example ex_non_canonical :
  valid_binary prec emax (S754_finite false 1 0) = false /\
  validate_threshold (PFloat (S754_finite false 1 0)) (PStr "JACCARD") = ok /\
  fleb (S754_finite false 1 0) f_one = false.
Proof. vm_compute. repeat split; reflexivity. Qed.

(* ------------------------------------------------------------------ integer thresholds: unchanged *)
(* the statement of ValidationFacts.threshold_int_ranges is the one proved before the source change *)
Theorem threshold_int_ranges_unchanged (z : Z) :
  (validate_threshold (PInt z) (PStr "EDIT_DISTANCE") = ok <-> 0 <= z) /\
  (validate_threshold (PInt z) (PStr "OVERLAP") = ok <-> 0 < z) /\
  (forall m, String.eqb m "EDIT_DISTANCE" = false -> String.eqb m "OVERLAP" = false ->
             (validate_threshold (PInt z) (PStr m) = ok <-> z = 1)) /\
  (forall m, validate_threshold (PInt z) (PStr m) = ok \/ validate_threshold (PInt z) (PStr m) = rejected).
Proof. exact (threshold_int_ranges z). Qed.

Print Assumptions threshold_float_ranges.
Print Assumptions threshold_nan_rejected.
Print Assumptions vt_unit_accepts_gt0.
Print Assumptions threshold_int_ranges_unchanged.
