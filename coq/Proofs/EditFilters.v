(* C04 for filter_pair under EDIT_DISTANCE (model Model/Filters.v): SizeFilter, PrefixFilter and
   PositionFilter never drop a pair whose q-gram bags satisfy the count filter for the threshold
   and share a q-gram.  Integers and lists only (axiom-free).                               *)
From Coq Require Import ZArith Bool List String Lia Sorted Arith.
From SSJ Require Import F64 PyNum FilterUtilsGen HelperGen TokenOrdering Filters Lev Qgram
                        Prefix BagFacts LevFacts QgramFacts OrderingFacts PyFacts PositionSafe
                        EditArith.
Import ListNotations.
Open Scope string_scope.
Open Scope Z_scope.

(* ------------------------------------------------------------------ *)
(* SizeFilter                                                          *)

Lemma both_empty_ed q tau ae : both_empty_verdict (edp q tau) ae = false.
Proof. reflexivity. Qed.

Theorem ed_size_filter_window q tau ae nl nr :
  Z.abs (nl - nr) <= tau -> size_filter_pair (edp q tau) ae nl nr = false.
Proof.
  intros H. unfold size_filter_pair. destruct ((nl =? 0) && (nr =? 0)); [apply both_empty_ed|].
  rewrite in_window_ed. apply negb_false_iff, andb_true_iff. split; apply Z.leb_le; lia.
Qed.

Lemma qgram_bag_len_diff tk s t : 1 <= qq tk ->
  Z.abs (len (qgram_bag tk s) - len (qgram_bag tk t)) <= lev s t.
Proof.
  intros Hq. unfold len. rewrite !qgram_bag_length by exact Hq. rewrite lev_dp_correct.
  pose proof (lev_spec_len_diff s t) as [H1 H2]. destruct (qpad tk); lia.
Qed.

Theorem ed_size_filter_safe q tau ae tk s t : 1 <= qq tk -> lev s t <= tau ->
  size_filter_pair (edp q tau) ae (len (qgram_bag tk s)) (len (qgram_bag tk t)) = false.
Proof.
  intros Hq Hlev. apply ed_size_filter_window. pose proof (qgram_bag_len_diff tk s t Hq). lia.
Qed.

(* ------------------------------------------------------------------ *)
(* common prelude of PrefixFilter / PositionFilter .filter_pair        *)

Lemma py_or_bool a b : py_truth (py_or (PBool a) (PBool b)) = (a || b).
Proof. destruct a, b; reflexivity. Qed.

Lemma slice0_nonneg k l : 0 <= k -> slice0 (PInt k) l = Some (firstn (Z.to_nat k) l).
Proof. intros H. unfold slice0. destruct (Z.ltb_spec k 0); [lia|reflexivity]. Qed.

Lemma share_len a b : share a b = true -> 1 <= len a /\ 1 <= len b.
Proof.
  intros H. apply share_ovl in H. pose proof (ovl_le_l a b). pose proof (ovl_le_r a b).
  unfold len. lia.
Qed.

Lemma len_order_pair_l bl br : len (order (bl ++ br) bl) = len bl.
Proof. unfold len. rewrite order_length; [reflexivity|]. intros w Hw. apply in_or_app. left; exact Hw. Qed.
Lemma len_order_pair_r bl br : len (order (bl ++ br) br) = len br.
Proof. unfold len. rewrite order_length; [reflexivity|]. intros w Hw. apply in_or_app. right; exact Hw. Qed.
Lemma ovl_order_pair bl br : ovl (order (bl ++ br) bl) (order (bl ++ br) br) = ovl bl br.
Proof. apply order_ovl; intros w Hw; apply in_or_app; [left|right]; exact Hw. Qed.

Section Pair.
  Variables (q tau : Z) (bl br : list Z).
  Hypothesis Ht : 0 <= tau.
  Hypothesis Hq : 1 <= q.
  Hypothesis Hcf : Z.max (len bl) (len br) - q * tau <= Z.of_nat (ovl bl br).
  Hypothesis Hsh : share bl br = true.

  Let X := order (bl ++ br) bl.
  Let Y := order (bl ++ br) br.

  Lemma ed_pair_not_empty : (len bl =? 0) && (len br =? 0) = false.
  Proof. destruct (share_len bl br Hsh). destruct (Z.eqb_spec (len bl) 0); [lia|reflexivity]. Qed.

  Lemma ed_pair_pl_check :
    py_truth (py_or (py_le (g_pl (edp q tau) (len bl)) (PInt 0))
                    (py_le (g_pl (edp q tau) (len br)) (PInt 0))) = false.
  Proof.
    destruct (share_len bl br Hsh).
    assert (0 <= q * tau) by (apply Z.mul_nonneg_nonneg; lia).
    rewrite !g_pl_ed by lia. rewrite !py_le_int_val, py_or_bool.
    apply orb_false_iff. split; apply Z.leb_gt; lia.
  Qed.

  Lemma ed_pair_slice_l : slice0 (g_pl (edp q tau) (len bl)) X = Some (firstn (edpl q tau X) X).
  Proof.
    destruct (share_len bl br Hsh).
    assert (0 <= q * tau) by (apply Z.mul_nonneg_nonneg; lia).
    rewrite g_pl_ed by lia. rewrite slice0_nonneg by lia.
    unfold edpl, X. rewrite len_order_pair_l. reflexivity.
  Qed.

  Lemma ed_pair_slice_r : slice0 (g_pl (edp q tau) (len br)) Y = Some (firstn (edpl q tau Y) Y).
  Proof.
    destruct (share_len bl br Hsh).
    assert (0 <= q * tau) by (apply Z.mul_nonneg_nonneg; lia).
    rewrite g_pl_ed by lia. rewrite slice0_nonneg by lia.
    unfold edpl, Y. rewrite len_order_pair_r. reflexivity.
  Qed.

  Lemma ed_pair_share : share (firstn (edpl q tau X) X) (firstn (edpl q tau Y) Y) = true.
  Proof.
    apply ed_prefix_share; try assumption; try apply order_sorted_le.
    - unfold X, Y. rewrite len_order_pair_l, len_order_pair_r, ovl_order_pair. exact Hcf.
    - unfold X, Y. rewrite ovl_order_pair. apply share_ovl. exact Hsh.
  Qed.

  (* ---------------------------------------------------------------- *)
  (* PrefixFilter                                                      *)
  Theorem ed_prefix_filter_safe ae : prefix_filter_pair (edp q tau) ae bl br = Some false.
  Proof.
    unfold prefix_filter_pair. rewrite ed_pair_not_empty. cbv zeta.
    rewrite ed_pair_pl_check. fold X. fold Y. rewrite ed_pair_slice_l, ed_pair_slice_r.
    rewrite ed_pair_share. reflexivity.
  Qed.
End Pair.

(* ------------------------------------------------------------------ *)
(* PositionFilter                                                      *)

(* the loop of filter_pair counts the probe-prefix tokens that occur in the other prefix, provided
   the overlap-threshold test passes at every hit *)
Lemma posfp_loop_ok nl nr a lp : forall todo done cur,
  (forall d w t, (done ++ todo)%list = (d ++ w :: t)%list -> memZ w lp = true ->
     a <= Z.of_nat (hits lp d) + 1 + Z.min (nl - 1) (nr - Z.of_nat (List.length d) - 1)) ->
  cur = Z.of_nat (hits lp done) ->
  posfp_loop nl nr (PInt a) lp todo (Z.of_nat (List.length done)) cur
  = Some (Z.of_nat (hits lp (done ++ todo))).
Proof.
  induction todo as [|w todo IH]; intros done cur Hb Hcur.
  - cbn [posfp_loop]. rewrite app_nil_r, Hcur. reflexivity.
  - cbn [posfp_loop].
    assert (Eapp : ((done ++ [w]) ++ todo)%list = (done ++ w :: todo)%list)
      by (rewrite <- app_assoc; reflexivity).
    assert (Elen : Z.of_nat (List.length done) + 1 = Z.of_nat (List.length (done ++ [w])))
      by (rewrite app_length; simpl; lia).
    destruct (memZ w lp) eqn:E.
    + pose proof (Hb done w todo eq_refl E) as Hbw.
      rewrite py_lt_int.
      destruct (Z.ltb_spec (cur + (1 + Z.min (nl - 0 - 1) (nr - Z.of_nat (List.length done) - 1))) a) as [Hlt|_];
        [lia|].
      rewrite Elen, <- Eapp. apply IH.
      * rewrite Eapp. exact Hb.
      * rewrite hits_app, (hits_cons_in lp w [] E), Hcur. change (hits lp []) with 0%nat. lia.
    + rewrite Elen, <- Eapp. apply IH.
      * rewrite Eapp. exact Hb.
      * rewrite hits_app, (hits_cons_notin lp w [] E), Hcur. change (hits lp []) with 0%nat. lia.
Qed.

(* at a hit, the bound used by the loop dominates the true bag overlap *)
Lemma ed_pos_bound xp SX d w T a :
  Sorted Z.le (xp ++ SX) -> Sorted Z.le (d ++ w :: T) -> In w xp ->
  a <= Z.of_nat (ovl (xp ++ SX) (d ++ w :: T)) ->
  a <= Z.of_nat (hits xp d) + 1 +
       Z.min (len (xp ++ SX) - 1) (len (d ++ w :: T) - Z.of_nat (List.length d) - 1).
Proof.
  intros HsX HsY Hw Ha.
  pose proof (ovl_le_l (xp ++ SX) (d ++ w :: T)) as H1.
  pose proof (binter_le_hits (xp ++ SX) (d ++ w :: T)) as H2. fold (ovl (xp ++ SX) (d ++ w :: T)) in H2.
  rewrite hits_app in H2. pose proof (hits_le (xp ++ SX) (w :: T)) as H3.
  assert (H4 : hits (xp ++ SX) d = hits xp d).
  { apply hits_restrict.
    - intros y Hy Hin. apply in_app_or in Hin. destruct Hin as [Hin|Hin]; [exact Hin|].
      assert (w <= y) by (apply (sorted_app_le xp SX HsX); assumption).
      assert (y <= w) by (apply (sorted_app_le d (w :: T) HsY); [exact Hy|left; reflexivity]).
      assert (y = w) by lia. subst y. exact Hw.
    - intros y Hy. apply in_or_app. left; exact Hy. }
  unfold len. rewrite (app_length d (w :: T)). rewrite H4 in H2. lia.
Qed.

Lemma share_hits a b : share a b = true -> (1 <= hits a b)%nat.
Proof.
  intros H. rewrite share_sym in H. unfold share in H. apply existsb_exists in H.
  destruct H as [w [Hw Hm]]. unfold hits.
  assert (Hin : In w (filter (fun y => mem y a) b)) by (apply filter_In; split; [exact Hw|exact Hm]).
  destruct (filter (fun y => mem y a) b); [destruct Hin|simpl; lia].
Qed.

Theorem ed_position_filter_safe q tau ae bl br : 0 <= tau -> 1 <= q ->
  Z.max (len bl) (len br) - q * tau <= Z.of_nat (ovl bl br) ->
  share bl br = true ->
  position_filter_pair (edp q tau) ae bl br = Some false.
Proof.
  intros Ht Hq Hcf Hsh. unfold position_filter_pair.
  rewrite (ed_pair_not_empty bl br Hsh). cbv zeta.
  rewrite (ed_pair_pl_check q tau bl br Ht Hq Hsh).
  rewrite (ed_pair_slice_l q tau bl br Ht Hq Hsh), (ed_pair_slice_r q tau bl br Ht Hq Hsh).
  rewrite g_ot_ed'.
  pose proof (ed_pair_share q tau bl br Ht Hq Hcf Hsh) as Hps.
  set (X := order (bl ++ br) bl) in *. set (Y := order (bl ++ br) br) in *.
  set (kx := edpl q tau X) in *. set (ky := edpl q tau Y) in *.
  assert (HlenX : len X = len bl) by apply len_order_pair_l.
  assert (HlenY : len Y = len br) by apply len_order_pair_r.
  assert (Hov : ovl X Y = ovl bl br) by apply ovl_order_pair.
  assert (Hloop : posfp_loop (len bl) (len br) (PInt (Z.max (len bl) (len br) - q * tau))
                             (firstn kx X) (firstn ky Y) 0 0
                  = Some (Z.of_nat (hits (firstn kx X) (firstn ky Y)))).
  { apply (posfp_loop_ok (len bl) (len br) _ (firstn kx X) (firstn ky Y) [] 0); [|reflexivity].
    cbn [app]. intros d w t Esplit Hm.
    assert (HsX : Sorted Z.le (firstn kx X ++ skipn kx X))
      by (rewrite firstn_skipn; apply order_sorted_le).
    assert (EY : Y = (d ++ w :: t ++ skipn ky Y)%list).
    { rewrite <- (firstn_skipn ky Y) at 1. rewrite Esplit, <- app_assoc. reflexivity. }
    assert (HsY : Sorted Z.le (d ++ w :: t ++ skipn ky Y))
      by (rewrite <- EY; apply order_sorted_le).
    assert (Hw : In w (firstn kx X)) by (apply mem_In; exact Hm).
    pose proof (ed_pos_bound (firstn kx X) (skipn kx X) d w (t ++ skipn ky Y)
                             (Z.max (len bl) (len br) - q * tau) HsX HsY Hw) as Hb.
    rewrite <- EY, firstn_skipn in Hb.
    rewrite Hov, HlenX, HlenY in Hb.
    apply Hb. exact Hcf. }
  rewrite Hloop. pose proof (share_hits _ _ Hps) as Hh.
  destruct (Z.ltb_spec 0 (Z.of_nat (hits (firstn kx X) (firstn ky Y)))); [reflexivity|lia].
Qed.

(* ------------------------------------------------------------------ *)
(* the three filters on the q-gram bags of two strings within distance tau *)

Lemma qgram_cf_tau tk s t tau : 1 <= qq tk -> lev s t <= tau ->
  Z.max (len (qgram_bag tk s)) (len (qgram_bag tk t)) - qq tk * tau
  <= Z.of_nat (ovl (qgram_bag tk s) (qgram_bag tk t)).
Proof.
  intros Hq Hlev. pose proof (count_filter_lev tk s t Hq) as H. unfold len.
  assert (qq tk * lev s t <= qq tk * tau) by (apply Z.mul_le_mono_nonneg_l; lia). lia.
Qed.

Theorem C04_edit_distance tk tau ae s t : 0 <= tau -> 1 <= qq tk -> lev s t <= tau ->
  share (qgram_bag tk s) (qgram_bag tk t) = true ->
  size_filter_pair (edp (qq tk) tau) ae (len (qgram_bag tk s)) (len (qgram_bag tk t)) = false /\
  prefix_filter_pair (edp (qq tk) tau) ae (qgram_bag tk s) (qgram_bag tk t) = Some false /\
  position_filter_pair (edp (qq tk) tau) ae (qgram_bag tk s) (qgram_bag tk t) = Some false.
Proof.
  intros Ht Hq Hlev Hsh. pose proof (qgram_cf_tau tk s t tau Hq Hlev) as Hcf.
  split; [apply ed_size_filter_safe; assumption|].
  split; [apply ed_prefix_filter_safe; assumption|apply ed_position_filter_safe; assumption].
Qed.

(* non-vacuity: "abc" / "abd", q = 2 (padded), tau = 1 *)
Definition tk2f : qgram_tok := {| qq := 2; qpad := true; qpre := 35; qsuf := 36 |}.
Example C04_edit_distance_ex :
  size_filter_pair (edp 2 1) false (len (qgram_bag tk2f [97; 98; 99])) (len (qgram_bag tk2f [97; 98; 100])) = false /\
  prefix_filter_pair (edp 2 1) false (qgram_bag tk2f [97; 98; 99]) (qgram_bag tk2f [97; 98; 100]) = Some false /\
  position_filter_pair (edp 2 1) false (qgram_bag tk2f [97; 98; 99]) (qgram_bag tk2f [97; 98; 100]) = Some false.
Proof.
  apply (C04_edit_distance tk2f 1 false).
  - lia.
  - simpl; lia.
  - apply Z.leb_le. vm_compute. reflexivity.
  - vm_compute. reflexivity.
Qed.
(* a pair within distance tau WITHOUT a common q-gram is dropped by the prefix filter *)
Example ed_prefix_filter_short_strings :
  lev [97] [98] = 1 /\
  prefix_filter_pair (edp 2 1) false (qgram_bag tk2f [97]) (qgram_bag tk2f [98]) = Some true.
Proof. vm_compute. auto. Qed.

Print Assumptions ed_size_filter_safe.
Print Assumptions ed_prefix_filter_safe.
Print Assumptions ed_position_filter_safe.
Print Assumptions C04_edit_distance.
