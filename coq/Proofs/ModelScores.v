(* The scores in the output of the API-level MODEL are well-typed: for every valid case of the five
   set-similarity joins, every row of `api_join c` carries PNone (missing pair, or with_score =
   false), a PFloat (JACCARD / COSINE / DICE / OVERLAP_COEFFICIENT) or a PInt (OVERLAP).  This
   discharges the side conditions `typed_scores` / `wf_scores` of the spec-level laws (Laws*.v)
   for the model, and bundles everything the laws need about one call of the model
   (`model_call_facts`).  The chunk partition fact is instantiated (hpart_cpus_bounded).      *)
From Coq Require Import ZArith Bool List String Lia SpecFloat Permutation.
From SSJ Require Import F64 PyNum HelperGen TokenOrdering Measures Filters Joins Api JoinSpec MetaSpec
     OrderingFacts CoreLiftBase CoreLift ApiLift SetBridge SetPair OverlapFacts OverlapMeasure
     ApiJoinBase ApiJoinPairs ApiJoinSpec PartitionInst LawsBase LawsScore LawsSpec Laws.
Import ListNotations.
Open Scope string_scope.
Open Scope list_scope.
Open Scope Z_scope.

(* ------------------------------------------------------------------ a valid case is a set case *)
Lemma params_set_measure c m : join_params_ok c m -> set_measure m = true.
Proof.
  intros [[Hm _]|[[-> _]|[-> _]]]; [|reflexivity|reflexivity].
  unfold set_measure. rewrite Hm. reflexivity.
Qed.

Lemma valid_set_case c : valid_join_case c -> set_case c = true.
Proof.
  intros [_ [_ [m [He Hp]]]]. unfold set_case. rewrite He. exact (params_set_measure c m Hp).
Qed.

Lemma valid_pf_verdicts c m : tables_ok c -> lower_op (j_op c) -> j_entry c = EJoin m ->
  join_params_ok c m -> pf_verdicts c m.
Proof.
  intros Htab Hop He [Hp|[[-> Hp]|[-> Hp]]].
  - apply pf_verdicts_jcd; assumption.
  - apply pf_verdicts_overlap; assumption.
  - apply pf_verdicts_ovc; assumption.
Qed.

Lemma int_case_join c m : j_entry c = EJoin m -> int_case c = String.eqb m "OVERLAP".
Proof. unfold int_case, measure_of. intros ->. reflexivity. Qed.

(* ------------------------------------------------------------------ (1) typed scores *)
Theorem api_join_typed_scores : forall c out,
  valid_join_case c -> api_join c = Some out -> typed_scores c out = true.
Proof.
  intros c out Hv Hout. pose proof (valid_set_case c Hv) as Hset.
  destruct Hv as [Htab [Hop [m [He Hp]]]].
  pose proof (valid_pf_verdicts c m Htab Hop He Hp) as Hpf.
  destruct Htab as [HkL [HkR [_ [_ [Hcpu [_ HlenR]]]]]].
  destruct (hpart_cpus_bounded row (j_njobs c) (j_cpus c) (filter present (j_R c)) Hcpu)
    as [chs [Hchs Hcat]].
  { pose proof (filter_length_le_nat present (j_R c)). lia. }
  rewrite api_join_eq, Hchs in Hout.
  destruct (opt_concat _) as [rows|] eqn:Hrows; [|discriminate].
  simpl in Hout. injection Hout as <-.
  unfold typed_scores. apply forallb_forall. intros [[lk rk] s] Ho. cbn [snd].
  apply g_out_In in Ho. destruct Ho as [[s0 [Ho Hs]]|[_ Ho]].
  - destruct (j_with_score c); [|rewrite Hs; reflexivity]. subst s.
    apply (chunks_rows_In _ _ _ _ Hrows) in Ho.
    destruct Ho as [ch [l [r [lst [Hch [Hl [Hr [_ [_ [E Hin]]]]]]]]]].
    destruct (Hpf (snd ch) l r (g_chunk_incl c chs Hcat ch Hch) Hl Hr) as [lst' [E' [_ [Hsnd _]]]].
    assert (lst' = lst) by congruence. subst lst'. specialize (Hsnd s0 Hin).
    rewrite (int_case_join c m He).
    destruct ((len (toks_of l) =? 0) && (len (toks_of r) =? 0)).
    + destruct Hsnd as [_ [Hmo ->]]. rewrite Hmo. reflexivity.
    + destruct Hsnd as [Hcmp [-> _]].
      pose proof (exp_sc_shape c (toks_of l) (toks_of r) Hset) as S.
      unfold exp_sc in S. rewrite He, (int_case_join c m He) in S.
      destruct (String.eqb m "OVERLAP").
      * rewrite S. reflexivity.
      * destruct S as [[f ->]|[e Ee]]; [reflexivity|].
        rewrite Ee, (cmp_exc_false _ _ _ Hop) in Hcmp. discriminate.
  - destruct (missing_key _ _ _ Ho) as [l [r [_ [_ [Eo _]]]]]. injection Eo as _ _ ->. reflexivity.
Qed.

Corollary api_join_wf_scores : forall c out,
  valid_join_case c -> api_join c = Some out -> wf_scores c out = true.
Proof. intros c out Hv Ho. apply typed_wf. exact (api_join_typed_scores c out Hv Ho). Qed.

Corollary api_join_scores : forall c out,
  valid_join_case c -> api_join c = Some out ->
  typed_scores c out = true /\ wf_scores c out = true.
Proof.
  intros c out Hv Ho. split; [exact (api_join_typed_scores c out Hv Ho) | exact (api_join_wf_scores c out Hv Ho)].
Qed.

(* with_score = false: every score is absent *)
Theorem api_join_no_scores : forall c out,
  valid_join_case c -> j_with_score c = false -> api_join c = Some out -> no_scores out.
Proof.
  intros c out Hv Hws Hout.
  destruct Hv as [[_ [_ [_ [_ [Hcpu [_ HlenR]]]]]] _].
  destruct (hpart_cpus_bounded row (j_njobs c) (j_cpus c) (filter present (j_R c)) Hcpu)
    as [chs [Hchs Hcat]].
  { pose proof (filter_length_le_nat present (j_R c)). lia. }
  rewrite api_join_eq, Hchs in Hout.
  destruct (opt_concat _) as [rows|] eqn:Hrows; [|discriminate].
  simpl in Hout. injection Hout as <-.
  intros [[lk rk] s] Ho. cbn [snd].
  apply g_out_In in Ho. destruct Ho as [[s0 [_ Hs]]|[_ Ho]].
  - rewrite Hws in Hs. exact Hs.
  - destruct (missing_key _ _ _ Ho) as [l [r [_ [_ [Eo _]]]]]. injection Eo as _ _ ->. reflexivity.
Qed.

(* ------------------------------------------------------------------ everything about one call *)
Definition model_call_facts (c : jcase) (out : list out_row) : Prop :=
  complete_spec c out = true /\ sound_spec c out = true /\ missing_spec c out = true /\
  empty_spec c out = true /\ typed_scores c out = true /\ wf_scores c out = true.

Theorem model_call : forall c out,
  valid_join_case c -> api_join c = Some out -> model_call_facts c out.
Proof.
  intros c out Hv Ho.
  destruct (api_join_spec hpart_cpus_bounded c out Hv Ho) as [H1 [H2 [H3 H4]]].
  destruct (api_join_scores c out Hv Ho) as [H5 H6].
  repeat split; assumption.
Qed.

Theorem model_total : forall c, valid_join_case c -> exists out, api_join c = Some out.
Proof. exact (api_join_total hpart_cpus_bounded). Qed.

(* ------------------------------------------------------------------ validity is insensitive to
   n_jobs / cpus (except 1 <= cpus), to q, and to the order of the rows *)
Lemma tables_ok_perm c c' : tables_ok c ->
  Permutation (j_L c) (j_L c') -> Permutation (j_R c) (j_R c') -> 1 <= j_cpus c' -> tables_ok c'.
Proof.
  intros [HkL [HkR [HL [HR [_ [HlL HlR]]]]]] PL PR Hcpu. unfold tables_ok.
  split; [eapply Permutation_NoDup; [apply Permutation_map; exact PL | exact HkL]|].
  split; [eapply Permutation_NoDup; [apply Permutation_map; exact PR | exact HkR]|].
  split; [intros r Hr; apply HL; eapply Permutation_in; [apply Permutation_sym; exact PL | exact Hr]|].
  split; [intros r Hr; apply HR; eapply Permutation_in; [apply Permutation_sym; exact PR | exact Hr]|].
  split; [exact Hcpu|].
  rewrite <- (Permutation_length PL), <- (Permutation_length PR). split; assumption.
Qed.

Lemma valid_same_call c c' : valid_join_case c -> same_call c c' -> 1 <= j_cpus c' ->
  valid_join_case c'.
Proof.
  intros [Htab [Hop [m [He Hp]]]] [Ee [Et [Eo [Eae [_ [_ [PL PR]]]]]]] Hcpu.
  split; [exact (tables_ok_perm c c' Htab PL PR Hcpu)|].
  split; [rewrite Eo; exact Hop|].
  exists m. split; [rewrite Ee; exact He|].
  unfold join_params_ok, jcd_params_ok, overlap_params_ok, ovc_params_ok in *.
  rewrite Et, Eae. exact Hp.
Qed.

Lemma same_call_njobs c n k : same_call c (with_njobs c n k).
Proof. unfold same_call, with_njobs; cbn. repeat split; apply Permutation_refl. Qed.

Lemma same_call_rows c L' R' : Permutation (j_L c) L' -> Permutation (j_R c) R' ->
  same_call c (with_rows c L' R').
Proof. intros PL PR. unfold same_call, with_rows; cbn. repeat split; assumption. Qed.

Lemma same_call_trans c1 c2 c3 : same_call c1 c2 -> same_call c2 c3 -> same_call c1 c3.
Proof.
  intros [A1 [A2 [A3 [A4 [A5 [A6 [A7 A8]]]]]]] [B1 [B2 [B3 [B4 [B5 [B6 [B7 B8]]]]]]].
  unfold same_call. repeat split; try congruence.
  - eapply Permutation_trans; eassumption.
  - eapply Permutation_trans; eassumption.
Qed.

Lemma valid_with_njobs c n k : valid_join_case c -> 1 <= k -> valid_join_case (with_njobs c n k).
Proof. intros Hv Hk. exact (valid_same_call c _ Hv (same_call_njobs c n k) Hk). Qed.

(* ------------------------------------------------------------------ non-vacuity: the three
   concrete 3 x 3 cases of ApiJoinSpec.v *)
Definition scores_check (c : jcase) : bool :=
  match api_join c with
  | Some out => typed_scores c out && wf_scores c out && negb (Nat.eqb (List.length out) 0)
  | None => false
  end.

Example ex3_scores :
  scores_check (ex3 "JACCARD" (PFloat (mkF 1 (-1))) true 2) = true /\
  scores_check (ex3 "OVERLAP" (PInt 2) false 3) = true /\
  scores_check (ex3 "OVERLAP_COEFFICIENT" (PFloat (mkF 1 (-1))) true 2) = true.
Proof. vm_compute. repeat split; reflexivity. Qed.

Example ex3_model_call : forall out,
  api_join (ex3 "OVERLAP" (PInt 2) false 3) = Some out ->
  model_call_facts (ex3 "OVERLAP" (PInt 2) false 3) out.
Proof. intros out. apply model_call. exact ex3_valid_overlap. Qed.

Print Assumptions api_join_typed_scores.
Print Assumptions api_join_no_scores.
Print Assumptions model_call.
Print Assumptions valid_same_call.
