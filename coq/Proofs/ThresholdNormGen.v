(* Float thresholds of the integer-valued measures at the level of the GENERATED filter_pair code
   (Gen/FilterPairGen.v, regenerated from the repaired source on every run):
   with sim_measure_type 'EDIT_DISTANCE' / 'OVERLAP' and a finite float threshold f, filter_pair of
   SizeFilter / PrefixFilter / PositionFilter RETURNS A BOOL (before the repair: TypeError from
   range()/slice with a float) -- the verdict of the pairwise model at threshold floor f resp.
   ceil f, i.e. exactly what the same call with the integer threshold returns; and a pair within
   the threshold is kept.  Also `formulas_ok` (what find_candidates needs from the formulas, the
   hypothesis of the index / join refinement theorems) for float thresholds.
   Lists / Z / SpecFloat case analysis only: closed under the global context.               *)
From Coq Require Import ZArith Bool List String Lia SpecFloat.
From SSJ Require Import F64 PyNum FilterUtilsGen HelperGen TokenOrderingGen FilterPairGen TokenOrdering Filters
     Measures Lev Qgram Joins Api JoinSpec FilterSpec
     PyFacts IndexPyFacts IndexProbeFacts OrderingFacts OrderingGenFacts OverlapFacts OverlapMeasure
     EditArith EditFilters IndexGlue
     FilterPairRefineBase FilterPairRefine FilterPairRefinePos FilterPairRefineSpec
     ThresholdNorm ThresholdNormFloat.
Import ListNotations.
Open Scope string_scope.
Open Scope Z_scope.

(* ====================================================================== formulas_ok *)
Lemma agree_probe_formulas_ok p p' n : fp_agree p p' -> probe_formulas_ok p' n -> probe_formulas_ok p n.
Proof.
  intros (_ & Alb & Aub & Apl & Aot) (lb & ub & k & Hlb & Hub & Hk & Hot).
  exists lb, ub, k. rewrite Alb, Aub, Apl. repeat split; try assumption.
  intros s Hs Hw. rewrite Aot. apply Hot; assumption.
Qed.
Lemma agree_formulas_ok p p' bound : fp_agree p p' -> formulas_ok p' bound -> formulas_ok p bound.
Proof. intros A H n Hn. apply (agree_probe_formulas_ok p p' n A). apply H. exact Hn. Qed.

Theorem formulas_ok_ed_float q f bound : f_is_finite f = true -> thr_nonneg f -> 1 <= q ->
  formulas_ok (edpf q f) bound.
Proof.
  intros Hfin H0 Hq. apply thr_nonneg_floor in H0; [|exact Hfin].
  apply (agree_formulas_ok _ (EditArith.edp q (f_floor f))).
  - apply fp_agree_ed_float. exact Hfin.
  - apply formulas_ok_ed; assumption.
Qed.
Theorem formulas_ok_overlap_float f q bound : f_is_finite f = true -> formulas_ok (ovpf f q) bound.
Proof.
  intros Hfin. apply (agree_formulas_ok _ (ovp (f_ceil f) q)).
  - apply fp_agree_ov_float. exact Hfin.
  - apply formulas_ok_overlap.
Qed.

(* ====================================================================== generated filter_pair *)
Section GenFloat.
  Variables (tokenize : pyval -> pyval) (ls rs : pyval) (l r : list Z).
  Hypothesis Hsl : scalar ls.
  Hypothesis Hsr : scalar rs.
  Hypothesis Hml : missing ls = false.
  Hypothesis Hmr : missing rs = false.
  Hypothesis Hl : tokenize ls = pints l.
  Hypothesis Hr : tokenize rs = pints r.

  Let B := 1 + len l + len r.
  Let HBl : len l < B := Bl l r.
  Let HBr : len r < B := Br l r.

  (* ---- EDIT_DISTANCE ---- *)
  Section Ed.
    Variables (q : Z) (f : f64) (ae am : bool).
    Hypothesis Hfin : f_is_finite f = true.
    Hypothesis H0 : thr_nonneg f.
    Hypothesis Hq : 1 <= q.

    Let Hfl : 0 <= f_floor f := proj1 (thr_nonneg_floor f Hfin) H0.

    Theorem size_filter_pair_gen_ed_float :
      size_filter_pair_gen (PStr "EDIT_DISTANCE") (PFloat f) (PBool ae) (PBool am) ls rs tokenize
      = PBool (size_filter_pair (EditArith.edp q (f_floor f)) ae (len l) (len r)).
    Proof.
      rewrite <- (ed_size_filter_pair_float q f Hfin).
      apply (size_filter_pair_gen_refines tokenize ls rs l r Hsl Hsr Hml Hmr Hl Hr (edpf q f) B ae am).
      - apply formulas_ok_ed_float; assumption.
      - exact HBl.
    Qed.
    Theorem prefix_filter_pair_gen_ed_float :
      exists b, prefix_filter_pair (EditArith.edp q (f_floor f)) ae l r = Some b /\
        prefix_filter_pair_gen (PStr "EDIT_DISTANCE") (PFloat f) (PBool ae) (PBool am) ls rs (PInt q) tokenize
        = PBool b.
    Proof.
      rewrite <- (ed_prefix_filter_pair_float q f Hfin).
      apply (prefix_filter_pair_gen_refines tokenize ls rs l r Hsl Hsr Hml Hmr Hl Hr (edpf q f) B ae am).
      - apply formulas_ok_ed_float; assumption.
      - exact HBl.
      - exact HBr.
    Qed.
    Theorem position_filter_pair_gen_ed_float :
      exists b, position_filter_pair (EditArith.edp q (f_floor f)) ae l r = Some b /\
        position_filter_pair_gen (PStr "EDIT_DISTANCE") (PFloat f) (PBool ae) (PBool am) ls rs (PInt q) tokenize
        = PBool b.
    Proof.
      rewrite <- (ed_position_filter_pair_float q f Hfin).
      apply (position_filter_pair_gen_refines tokenize ls rs l r Hsl Hsr Hml Hmr Hl Hr (edpf q f) B ae am).
      - apply formulas_ok_ed_float; assumption.
      - exact HBl.
      - exact HBr.
      - destruct (g_ot_ed_float_val q f Hfin (len l) (len r)) as [k ->]. discriminate.
    Qed.

    (* the call with the float threshold returns what the call with int(floor(f)) returns *)
    Corollary size_filter_pair_gen_ed_float_int :
      size_filter_pair_gen (PStr "EDIT_DISTANCE") (PFloat f) (PBool ae) (PBool am) ls rs tokenize =
      size_filter_pair_gen (PStr "EDIT_DISTANCE") (PInt (f_floor f)) (PBool ae) (PBool am) ls rs tokenize.
    Proof.
      rewrite size_filter_pair_gen_ed_float.
      symmetry. apply (size_filter_pair_gen_ed tokenize ls rs l r Hsl Hsr Hml Hmr Hl Hr); assumption.
    Qed.
    Corollary prefix_filter_pair_gen_ed_float_int :
      prefix_filter_pair_gen (PStr "EDIT_DISTANCE") (PFloat f) (PBool ae) (PBool am) ls rs (PInt q) tokenize =
      prefix_filter_pair_gen (PStr "EDIT_DISTANCE") (PInt (f_floor f)) (PBool ae) (PBool am) ls rs (PInt q) tokenize.
    Proof.
      destruct prefix_filter_pair_gen_ed_float as (b & Hb & ->).
      destruct (prefix_filter_pair_gen_ed tokenize ls rs l r Hsl Hsr Hml Hmr Hl Hr q (f_floor f) ae am Hfl Hq)
        as (b' & Hb' & ->).
      rewrite Hb in Hb'. injection Hb' as ->. reflexivity.
    Qed.
    Corollary position_filter_pair_gen_ed_float_int :
      position_filter_pair_gen (PStr "EDIT_DISTANCE") (PFloat f) (PBool ae) (PBool am) ls rs (PInt q) tokenize =
      position_filter_pair_gen (PStr "EDIT_DISTANCE") (PInt (f_floor f)) (PBool ae) (PBool am) ls rs (PInt q) tokenize.
    Proof.
      destruct position_filter_pair_gen_ed_float as (b & Hb & ->).
      destruct (position_filter_pair_gen_ed tokenize ls rs l r Hsl Hsr Hml Hmr Hl Hr q (f_floor f) ae am Hfl Hq)
        as (b' & Hb' & ->).
      rewrite Hb in Hb'. injection Hb' as ->. reflexivity.
    Qed.
  End Ed.

  (* ---- OVERLAP ---- *)
  Section Ov.
    Variables (f : f64) (q : Z) (ae am : bool).
    Hypothesis Hfin : f_is_finite f = true.

    Theorem size_filter_pair_gen_overlap_float :
      size_filter_pair_gen (PStr "OVERLAP") (PFloat f) (PBool ae) (PBool am) ls rs tokenize
      = PBool (size_filter_pair (ovp (f_ceil f) q) ae (len l) (len r)).
    Proof.
      rewrite <- (ov_size_filter_pair_float_eq f q Hfin).
      apply (size_filter_pair_gen_refines tokenize ls rs l r Hsl Hsr Hml Hmr Hl Hr (ovpf f q) B ae am).
      - apply formulas_ok_overlap_float; assumption.
      - exact HBl.
    Qed.
    Theorem prefix_filter_pair_gen_overlap_float :
      exists b, prefix_filter_pair (ovp (f_ceil f) q) ae l r = Some b /\
        prefix_filter_pair_gen (PStr "OVERLAP") (PFloat f) (PBool ae) (PBool am) ls rs (PInt q) tokenize
        = PBool b.
    Proof.
      rewrite <- (ov_prefix_filter_pair_float_eq f q Hfin).
      apply (prefix_filter_pair_gen_refines tokenize ls rs l r Hsl Hsr Hml Hmr Hl Hr (ovpf f q) B ae am).
      - apply formulas_ok_overlap_float; assumption.
      - exact HBl.
      - exact HBr.
    Qed.
    Theorem position_filter_pair_gen_overlap_float :
      exists b, position_filter_pair (ovp (f_ceil f) q) ae l r = Some b /\
        position_filter_pair_gen (PStr "OVERLAP") (PFloat f) (PBool ae) (PBool am) ls rs (PInt q) tokenize
        = PBool b.
    Proof.
      rewrite <- (ov_position_filter_pair_float_eq f q Hfin).
      apply (position_filter_pair_gen_refines tokenize ls rs l r Hsl Hsr Hml Hmr Hl Hr (ovpf f q) B ae am).
      - apply formulas_ok_overlap_float; assumption.
      - exact HBl.
      - exact HBr.
      - rewrite (g_ot_ov_float_val f q Hfin). discriminate.
    Qed.

    Corollary size_filter_pair_gen_overlap_float_int :
      size_filter_pair_gen (PStr "OVERLAP") (PFloat f) (PBool ae) (PBool am) ls rs tokenize =
      size_filter_pair_gen (PStr "OVERLAP") (PInt (f_ceil f)) (PBool ae) (PBool am) ls rs tokenize.
    Proof.
      rewrite size_filter_pair_gen_overlap_float.
      symmetry. apply (size_filter_pair_gen_overlap tokenize ls rs l r Hsl Hsr Hml Hmr Hl Hr).
    Qed.
    Corollary prefix_filter_pair_gen_overlap_float_int :
      prefix_filter_pair_gen (PStr "OVERLAP") (PFloat f) (PBool ae) (PBool am) ls rs (PInt q) tokenize =
      prefix_filter_pair_gen (PStr "OVERLAP") (PInt (f_ceil f)) (PBool ae) (PBool am) ls rs (PInt q) tokenize.
    Proof.
      destruct prefix_filter_pair_gen_overlap_float as (b & Hb & ->).
      destruct (prefix_filter_pair_gen_overlap tokenize ls rs l r Hsl Hsr Hml Hmr Hl Hr (f_ceil f) q ae am)
        as (b' & Hb' & ->).
      rewrite Hb in Hb'. injection Hb' as ->. reflexivity.
    Qed.
    Corollary position_filter_pair_gen_overlap_float_int :
      position_filter_pair_gen (PStr "OVERLAP") (PFloat f) (PBool ae) (PBool am) ls rs (PInt q) tokenize =
      position_filter_pair_gen (PStr "OVERLAP") (PInt (f_ceil f)) (PBool ae) (PBool am) ls rs (PInt q) tokenize.
    Proof.
      destruct position_filter_pair_gen_overlap_float as (b & Hb & ->).
      destruct (position_filter_pair_gen_overlap tokenize ls rs l r Hsl Hsr Hml Hmr Hl Hr (f_ceil f) q ae am)
        as (b' & Hb' & ->).
      rewrite Hb in Hb'. injection Hb' as ->. reflexivity.
    Qed.

    (* safety on the generated code: token SETS with overlap >= f are kept (returns False) *)
    Theorem filter_pair_gen_overlap_float_safe : NoDup l -> NoDup r ->
      thr_pos f -> ge_thr (overlap_sets l r) f -> len r <= maxsizeZ ->
      size_filter_pair_gen (PStr "OVERLAP") (PFloat f) (PBool ae) (PBool am) ls rs tokenize = PBool false /\
      prefix_filter_pair_gen (PStr "OVERLAP") (PFloat f) (PBool ae) (PBool am) ls rs (PInt q) tokenize = PBool false /\
      position_filter_pair_gen (PStr "OVERLAP") (PFloat f) (PBool ae) (PBool am) ls rs (PInt q) tokenize = PBool false.
    Proof.
      intros Hndl Hndr Hp Ho Hm.
      destruct (C04_overlap_measure_pair_float l r f q ae Hfin Hndl Hndr Hp Ho Hm) as (H1 & H2 & H3).
      rewrite ov_size_filter_pair_float_eq in H1 by exact Hfin.
      rewrite ov_prefix_filter_pair_float_eq in H2 by exact Hfin.
      rewrite ov_position_filter_pair_float_eq in H3 by exact Hfin.
      split; [|split].
      - rewrite size_filter_pair_gen_overlap_float, H1. reflexivity.
      - destruct prefix_filter_pair_gen_overlap_float as (b & Hb & ->). rewrite H2 in Hb.
        injection Hb as <-. reflexivity.
      - destruct position_filter_pair_gen_overlap_float as (b & Hb & ->). rewrite H3 in Hb.
        injection Hb as <-. reflexivity.
    Qed.
  End Ov.
End GenFloat.

(* safety on the generated code, EDIT_DISTANCE: the tokenizer produces the q-gram bags of the two
   strings s, t (as code-point lists); strings within distance f sharing a q-gram are kept *)
Theorem filter_pair_gen_ed_float_safe tokenize ls rs tk s t f (ae am : bool) :
  scalar ls -> scalar rs -> missing ls = false -> missing rs = false ->
  tokenize ls = pints (qgram_bag tk s) -> tokenize rs = pints (qgram_bag tk t) ->
  f_is_finite f = true -> 1 <= qq tk -> le_thr (lev s t) f ->
  share (qgram_bag tk s) (qgram_bag tk t) = true ->
  size_filter_pair_gen (PStr "EDIT_DISTANCE") (PFloat f) (PBool ae) (PBool am) ls rs tokenize = PBool false /\
  prefix_filter_pair_gen (PStr "EDIT_DISTANCE") (PFloat f) (PBool ae) (PBool am) ls rs (PInt (qq tk)) tokenize = PBool false /\
  position_filter_pair_gen (PStr "EDIT_DISTANCE") (PFloat f) (PBool ae) (PBool am) ls rs (PInt (qq tk)) tokenize = PBool false.
Proof.
  intros Hsl Hsr Hml Hmr Hl Hr Hfin Hq Hlev Hsh.
  assert (H0 : thr_nonneg f).
  { apply thr_nonneg_floor; [exact Hfin|]. apply le_thr_floor in Hlev; [|exact Hfin].
    pose proof (lev_nonneg s t). lia. }
  destruct (C04_edit_distance_float tk f ae s t Hfin Hq Hlev Hsh) as (H1 & H2 & H3).
  rewrite ed_size_filter_pair_float in H1 by exact Hfin.
  rewrite ed_prefix_filter_pair_float in H2 by exact Hfin.
  rewrite ed_position_filter_pair_float in H3 by exact Hfin.
  split; [|split].
  - rewrite (size_filter_pair_gen_ed_float tokenize ls rs _ _ Hsl Hsr Hml Hmr Hl Hr (qq tk) f ae am Hfin H0 Hq).
    rewrite H1. reflexivity.
  - destruct (prefix_filter_pair_gen_ed_float tokenize ls rs _ _ Hsl Hsr Hml Hmr Hl Hr (qq tk) f ae am Hfin H0 Hq)
      as (b & Hb & ->). rewrite H2 in Hb. injection Hb as <-. reflexivity.
  - destruct (position_filter_pair_gen_ed_float tokenize ls rs _ _ Hsl Hsr Hml Hmr Hl Hr (qq tk) f ae am Hfin H0 Hq)
      as (b & Hb & ->). rewrite H3 in Hb. injection Hb as <-. reflexivity.
Qed.

(* ====================================================================== examples *)
(* the example tokenizer of FilterPairRefineSpec.v; OVERLAP with threshold 1.5: overlap 2 kept,
   overlap 1 dropped -- and every call returns a bool *)
Example gen_filter_pair_float_ex :
  position_filter_pair_gen (PStr "OVERLAP") (PFloat f_1_5) (PBool true) (PBool false)
     (PStr "ab cd ef") (PStr "cd ef gh") (PInt 2) ex_tok = PBool false /\
  prefix_filter_pair_gen (PStr "OVERLAP") (PFloat f_1_5) (PBool true) (PBool false)
     (PStr "ab cd ef") (PStr "cd ef gh") (PInt 2) ex_tok = PBool false /\
  size_filter_pair_gen (PStr "OVERLAP") (PFloat f_1_5) (PBool true) (PBool false)
     (PStr "ab cd ef") (PStr "cd ef gh") ex_tok = PBool false /\
  prefix_filter_pair_gen (PStr "OVERLAP") (PFloat f_1_5) (PBool true) (PBool false)
     (PStr "ab cd ef") (PStr "ef gh ij kl") (PInt 2) ex_tok = PBool true /\
  size_filter_pair_gen (PStr "EDIT_DISTANCE") (PFloat f_1_5) (PBool true) (PBool false)
     (PStr "ab cd ef") (PStr "ef gh ij kl") ex_tok = PBool false /\
  size_filter_pair_gen (PStr "EDIT_DISTANCE") (PFloat f_0_5) (PBool true) (PBool false)
     (PStr "ab cd ef") (PStr "ef gh ij kl") ex_tok = PBool true /\
  position_filter_pair_gen (PStr "EDIT_DISTANCE") (PFloat f_2_0) (PBool true) (PBool false)
     (PStr "ab cd ef") (PStr "cd ef gh") (PInt 2) ex_tok = PBool false.
Proof. vm_compute. repeat split; reflexivity. Qed.

Print Assumptions formulas_ok_ed_float.
Print Assumptions formulas_ok_overlap_float.
Print Assumptions size_filter_pair_gen_ed_float.
Print Assumptions prefix_filter_pair_gen_ed_float_int.
Print Assumptions position_filter_pair_gen_ed_float_int.
Print Assumptions position_filter_pair_gen_overlap_float_int.
Print Assumptions filter_pair_gen_overlap_float_safe.
Print Assumptions filter_pair_gen_ed_float_safe.
