(* Facts that carry the hypotheses and the abstraction from a SOURCE table (all its columns) to the PROJECTED
   table ltable[proj_attrs] that the generated apply_matcher_rows / filter_candset_rows hand to the per-chunk
   function: cells by name are preserved (ProjectionFacts.positional_index), so key lookup, the key -> row
   dictionary, the model's rows and the token cache are the same.  Lists / Z only; axiom-free.            *)
From Coq Require Import ZArith Bool List String Lia.
From SSJ Require Import F64 PyNum HelperGen Filters Api Matcher ProjSpec ProjectionFacts Frame
     WrapperRefineFrame MatcherRefineBase MatcherRefineLoop MatcherRefineSplit MatcherRefine.
Import ListNotations.
Open Scope Z_scope.

Lemma enum_from_map {A B} (f : A -> B) (l : list A) : forall s,
  enum_from s (map f l) = map (fun ir : nat * A => (fst ir, f (snd ir))) (enum_from s l).
Proof. induction l as [|x l IH]; intros s; cbn [map enum_from fst snd]; [reflexivity | now rewrite IH]. Qed.

Lemma find_exists {A} (p : A -> bool) (l : list A) x : In x l -> p x = true -> exists y, find p l = Some y.
Proof.
  intros Hin Hp. destruct (find p l) as [y|] eqn:E; [exists y; reflexivity|].
  rewrite (find_none p l E x Hin) in Hp. discriminate.
Qed.

Section Table.
  Variables (cols proj : list string) (key val : string) (rows : list (list pyval)).
  Variables (kz : pyval -> Z).
  Hypothesis Hkey : In key proj.
  Hypothesis Hval : In val proj.

  Notation prow := (fun row : list pyval => map (cellv cols row) proj).
  Notation prows := (project_rows cols proj rows).
  Notation ki := (posn key proj).
  Notation vi := (posn val proj).

  Lemma prow_key row : nth ki (prow row) PNone = cellv cols row key.
  Proof. exact (positional_index cols row proj key Hkey). Qed.
  Lemma prow_val row : nth vi (prow row) PNone = cellv cols row val.
  Proof. exact (positional_index cols row proj val Hval). Qed.
  Lemma prow_cell row a : In a proj -> nth (posn a proj) (prow row) PNone = cellv cols row a.
  Proof. intros Ha. exact (positional_index cols row proj a Ha). Qed.

  (* key lookup in the projected table = key lookup in the source table *)
  Lemma find_row_project kc :
    find_row ki prows kc = option_map prow (find (fun row => pv_eqb (cellv cols row key) kc) rows).
  Proof.
    unfold find_row, project_rows. rewrite find_map. f_equal. apply find_ext_in. intros row _.
    now rewrite prow_key.
  Qed.
  Lemma find_key_project z :
    find_key kz ki prows z = option_map prow (find (fun row => kz (cellv cols row key) =? z) rows).
  Proof.
    unfold find_key, project_rows. rewrite find_map. f_equal. apply find_ext_in. intros row _.
    now rewrite prow_key.
  Qed.

  (* the model's table *)
  Definition src_mrows : list mrow :=
    map (fun ir : nat * list pyval =>
           (kz (cellv cols (snd ir) key),
            if cell_missing (cellv cols (snd ir) val) then None else Some (Z.of_nat (fst ir))))
        (enum_from 0 rows).
  Lemma mrows_project : mrows kz ki vi prows = src_mrows.
  Proof.
    unfold mrows, src_mrows, project_rows. rewrite enum_from_map, map_map. apply map_ext. intros [i row].
    cbn [fst snd]. unfold vid. now rewrite prow_key, prow_val.
  Qed.

  (* the cell of row number a *)
  Lemma nth_project_val a : nth vi (nth a prows []) PNone = cellv cols (nth a rows []) val.
  Proof.
    unfold project_rows. destruct (Nat.lt_ge_cases a (List.length rows)) as [Hlt|Hge].
    - rewrite (nth_indep _ [] (prow [])) by (rewrite map_length; exact Hlt).
      rewrite (map_nth prow). apply prow_val.
    - rewrite (nth_overflow (map prow rows)) by (rewrite map_length; exact Hge).
      rewrite (nth_overflow rows) by exact Hge.
      unfold cellv. now destruct vi, (posn val cols).
  Qed.

  (* distinct keys *)
  Lemma distinct_keys_project :
    NoDup (map (fun row => kz (cellv cols row key)) rows) ->
    (forall r r', In r rows -> In r' rows ->
       pv_eqb (cellv cols r key) (cellv cols r' key) = (kz (cellv cols r key) =? kz (cellv cols r' key))) ->
    distinct_keys ki prows.
  Proof.
    unfold project_rows. induction rows as [|r rs IH]; intros Hnd Hk; [exact I|].
    cbn [map distinct_keys]. inversion Hnd as [|? ? Hni Hnd']; subst. split.
    - intros r' Hr'. apply in_map_iff in Hr'. destruct Hr' as (r0 & <- & Hr0).
      rewrite !prow_key. rewrite Hk by (try (left; reflexivity); right; exact Hr0).
      apply Z.eqb_neq. intros E. apply Hni. rewrite E. apply in_map_iff. exists r0. split; [reflexivity | exact Hr0].
    - apply IH; [exact Hnd'|]. intros a b Ha Hb. apply Hk; right; assumption.
  Qed.

  Lemma row_ok_project row : List.length row = List.length cols -> row_ok row ->
    (forall a, In a proj -> In a cols) -> row_ok (prow row).
  Proof. intros Hlen Hok Hin. apply project_row_ok; assumption. Qed.
End Table.

Print Assumptions mrows_project.
Print Assumptions distinct_keys_project.
