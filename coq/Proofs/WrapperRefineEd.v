(* End-to-end refinement of the GENERATED public wrapper edit_distance_join_rows (Gen/WrapperGen.v, from
   join/edit_distance_join_py.py).  The tokenizer is used in BAG mode (return_set=False), the rows of a chunk
   come from a Python set of candidates: "a permutation within the chunk" is the right statement.

   * edit_distance_join_rows_refines (AXIOM-FREE; chunk boundaries are a hypothesis): the wrapper returns
     header_spec c with rows numbered (concat of the chunks' rows ++ missing-value rows), the rows of chunk j
     being a permutation of spec_row applied to the triples of the MODEL core ed_core q tau op on
     (present left rows, chunk j) with tau = int(floor(threshold)), every cell list the declarative
     projection cells_spec;
   * edit_distance_join_rows_end_to_end: against Model/Api.v api_join with the entry EJoin "EDIT_DISTANCE"
     (WrapperEnd.end_to_end_chunks: per chunk and up to order within the chunk; Reals axioms through the
     chunk boundaries only);
   * edit_distance_join_rows_end_to_end_flat: the shape of WrapperRefineEnd.jaccard_join_rows_end_to_end
     (rows of the API model carry the code points of the join string: arowLs / arowRs with str).    *)
From Coq Require Import ZArith Bool List String Lia Permutation.
From SSJ Require Import F64 PyNum FilterUtilsGen HelperGen TokenOrderingGen ValidationGen IndexGen JoinGen
     TokenOrdering Measures Filters Joins Api Projection ProjSpec IndexPyFacts ProjectionFacts
     JoinGenFacts JoinGenLoop JoinRefine JoinRefineProj SplitFacts SplitRefineEd SplitRefineProj SplitRefineProjAll
     Frame WrapperGen WrapperRefineFrame
     WrapperRefineMissing WrapperRefineCore WrapperRefineChunks WrapperRefine WrapperRefineClosed
     WrapperRefineApi WrapperBody WrapperApiLink WrapperEnd.
Import ListNotations.
Open Scope Z_scope.

Section Ed.
  Variables (c : pcase) (t : pyval) (q tau : Z) (op : string) (ae am : bool) (njobs cpus : Z).
  Variables (lsrc rsrc : list (list pyval)) (showp : pyval).
  Variables (tokenize : pyval -> pyval) (sim_fn : pyval -> pyval -> pyval).
  Variables (toks str : pyval -> list Z) (cf : pyval -> pyval -> pyval) (kz : pyval -> Z).

  Let lpres := lpresent c lsrc.
  Let rpres := rpresent c rsrc.
  Let lcell (row : list pyval) := cellv (p_lcols c) row (p_ljoin c).
  Let rcell (row : list pyval) := cellv (p_rcols c) row (p_rjoin c).

  Hypothesis Hwf : well_formed c.
  Hypothesis Hlsrc : forall row, In row lsrc ->
    List.length row = List.length (p_lcols c) /\ ProjSpec.row_ok row.
  Hypothesis Hrsrc : forall row, In row rsrc ->
    List.length row = List.length (p_rcols c) /\ ProjSpec.row_ok row.
  (* tokenizer_tokenize: tokenization in BAG mode; toks = the q-gram bag of a join cell *)
  Hypothesis HtokL : forall row, In row lpres -> tokenize (lcell row) = pints (toks (lcell row)).
  Hypothesis HtokR : forall row, In row rpres -> tokenize (rcell row) = pints (toks (rcell row)).
  (* str = the code points of a join cell; sim_fn = get_sim_function('EDIT_DISTANCE') *)
  Hypothesis HlenL : forall row, In row lpres -> py_len (lcell row) = PInt (len (str (lcell row))).
  Hypothesis HlenR : forall row, In row rpres -> py_len (rcell row) = PInt (len (str (rcell row))).
  Hypothesis Hsim : forall l r, In l lpres -> In r rpres ->
    sim_fn (lcell l) (rcell r) = ed_dist (str (lcell l)) (str (rcell r)).
  Hypothesis Hvt : is_exc (validate_threshold t (PStr "EDIT_DISTANCE")) = false.
  Hypothesis Hvop : is_exc (validate_comp_op_for_sim_measure (PStr op) (PStr "EDIT_DISTANCE")) = false.
  Hypothesis Hvout : is_exc (validate_output_attrs (py_opt_strs (p_lout c)) (py_strs (p_lcols c))
                                                   (py_opt_strs (p_rout c)) (py_strs (p_rcols c))) = false.
  Hypothesis Hop : comp_op_map op = Some cf.
  (* threshold = int(floor(threshold)) *)
  Hypothesis Hfloor : py_int (py_floor t) = PInt tau.
  Hypothesis Htau : 0 <= tau.
  Hypothesis Hq : 1 <= q.
  Hypothesis Hid : ~ In "_id"%string (mv_header c).

  (* the model's per-chunk core *)
  Definition ed_K (ch : list (list pyval)) : option (list triple) :=
    ed_core q tau op (map (fun row => (str (lcell row), toks (lcell row))) lpres)
                     (map (fun row => (str (rcell row), toks (rcell row))) ch).

  Lemma ed_chunk (ch : list (list pyval)) (sp : pyval) : (forall row, In row ch -> In row rpres) ->
    exists rows,
      frame_of_core
        (edit_distance_join_split_rows (PList (map PList (project_l c lpres))) (PList (map PList (project_r c ch)))
           (l_proj c) (r_proj c) (PStr (p_lkey c)) (PStr (p_rkey c)) (PStr (p_ljoin c)) (PStr (p_rjoin c))
           (PInt tau) (PStr op) (l_out c) (r_out c) (PStr (p_lpre c)) (PStr (p_rpre c)) (PBool (p_score c))
           sp (PInt q) tokenize sim_fn)
      = sframe (mv_header c) rows /\
      shaped (List.length (mv_header c)) rows /\ chunk_ok c lsrc ed_K ch rows.
  Proof.
    intros Hch.
    assert (H1 : forall row, In row lpres -> List.length row = List.length (p_lcols c) /\ ProjSpec.row_ok row)
      by (intros row Hr; apply Hlsrc; apply (lpresent_in c lsrc); exact Hr).
    assert (H2 : forall row, In row ch -> List.length row = List.length (p_rcols c) /\ ProjSpec.row_ok row)
      by (intros row Hr; apply Hrsrc; apply (rpresent_in c rsrc); apply Hch; exact Hr).
    destruct (edit_distance_join_split_rows_refines_proj c lpres ch sp tokenize toks Hwf H1 H2 HtokL
                (fun row Hr => HtokR row (Hch row Hr)) q tau op sim_fn str cf Htau Hq HlenL
                (fun row Hr => HlenR row (Hch row Hr)) (fun l r Hl Hr => Hsim l r Hl (Hch r Hr)) Hop)
      as (T & rows & header & ET & Egen & Ehdr & Perm & Hcells).
    destruct (core_frame c lpres ch T rows header _ Egen Ehdr Perm Hcells) as [EF Hsh].
    exists rows. split; [exact EF|]. split; [exact Hsh|].
    exists T. split; [exact ET|]. split; [exact Perm | exact Hcells].
  Qed.

  Definition ed_call : pyval :=
    edit_distance_join_rows (sframe (p_lcols c) lsrc) (sframe (p_rcols c) rsrc)
      (PStr (p_lkey c)) (PStr (p_rkey c)) (PStr (p_ljoin c)) (PStr (p_rjoin c))
      t (PStr op) (PBool am) (py_opt_strs (p_lout c)) (py_opt_strs (p_rout c))
      (PStr (p_lpre c)) (PStr (p_rpre c)) (PBool (p_score c)) (PInt njobs) showp (PInt cpus)
      (PInt q) tokenize sim_fn.

  Section Split.
    Variable bs : list (nat * nat).
    Hypothesis Hsplit : 1 < kjobs c njobs cpus rsrc ->
      List.length bs = Z.to_nat (kjobs c njobs cpus rsrc) /\
      split_table (PList (map PList (project_r c rpres))) (PInt (kjobs c njobs cpus rsrc))
      = PList (map PList (map (slice_nat (map PList (project_r c rpres))) bs)).

    Theorem edit_distance_join_rows_refines :
      body_result c am njobs cpus lsrc rsrc bs (chunk_ok c lsrc ed_K) ed_call.
    Proof using Hwf Hlsrc Hrsrc HtokL HtokR HlenL HlenR Hsim Hvt Hvop Hvout Hop Hfloor Htau Hq Hid Hsplit.
      unfold ed_call, edit_distance_join_rows.
      wr_attrs c Hwf Hlsrc Hrsrc.
      wr_valid Hvt. wr_valid Hvop. wr_valid Hvout.
      rewrite Hfloor. rewrite (bindx_ok _ (PInt tau)) by reflexivity.
      wr_proj c njobs cpus lsrc rsrc Hwf Hlsrc Hrsrc.
      pose proof (body_eval c am njobs cpus lsrc rsrc showp bs
                    (fun la ra sp => frame_of_core
                       (edit_distance_join_split_rows la ra (l_proj c) (r_proj c)
                          (PStr (p_lkey c)) (PStr (p_rkey c)) (PStr (p_ljoin c)) (PStr (p_rjoin c))
                          (PInt tau) (PStr op) (l_out c) (r_out c) (PStr (p_lpre c)) (PStr (p_rpre c))
                          (PBool (p_score c)) sp (PInt q) tokenize sim_fn))
                    (chunk_ok c lsrc ed_K) Hwf Hlsrc Hrsrc Hid
                    (fun ch sp Hin => ed_chunk ch sp (wchunks_in c njobs cpus rsrc bs ch Hin)) Hsplit) as H.
      unfold wbody in H. cbv beta in H. exact H.
    Qed.
  End Split.

  (* ---- against the API model ---- *)
  Definition ed_jcase : jcase :=
    {| j_entry := EJoin "EDIT_DISTANCE"; j_t := t; j_q := q; j_op := op; j_allow_empty := ae;
       j_allow_missing := am; j_with_score := p_score c; j_njobs := njobs; j_cpus := cpus;
       j_L := map (arowLs c toks str kz) lsrc; j_R := map (arowRs c toks str kz) rsrc |}.

  Lemma ed_core_of ch : (forall row, In row ch -> In row rpres) ->
    core_of ed_jcase (map (arowLs c toks str kz) lpres) (map (arowRs c toks str kz) ch) = ed_K ch.
  Proof.
    intros Hch. unfold core_of, ed_jcase, ed_K. cbn [j_entry j_op j_t j_q j_allow_empty].
    cbn [String.eqb Ascii.eqb Bool.eqb]. cbv iota. rewrite Hfloor. unfold lpres.
    rewrite (strtoksLs c lsrc toks str kz), (strtoksRs c rsrc toks str kz ch Hch). reflexivity.
  Qed.

  Hypothesis Hn : Z.of_nat (List.length rpres) < 2^31.

  Theorem edit_distance_join_rows_end_to_end :
    end_to_end_chunks c am lsrc rsrc toks str kz ed_jcase ed_call.
  Proof using All.
    apply (end_of_body c am njobs cpus lsrc rsrc toks str kz ed_jcase ed_K Hwf Hlsrc Hrsrc);
      try reflexivity.
    - exact ed_core_of.
    - exact Hn.
    - apply edit_distance_join_rows_refines. intros Hk. apply split_hyp; assumption.
  Qed.

  Theorem edit_distance_join_rows_end_to_end_flat :
    end_to_end_flat c am lsrc rsrc toks str kz ed_jcase ed_call.
  Proof using All. apply chunks_flat. exact edit_distance_join_rows_end_to_end. Qed.
End Ed.

Print Assumptions edit_distance_join_rows_refines.
Print Assumptions edit_distance_join_rows_end_to_end.
Print Assumptions edit_distance_join_rows_end_to_end_flat.
