(* Code-level property theorems, part 0: the glue between the two halves of the development.

   (A) "generated code refines the model" ends in statements of the shape WrapperEnd.end_to_end_flat:
       the frame returned by a GENERATED wrapper is  sframe (header_spec c) (numbered (main ++ mv)),
       api_join jc = Some (main_api ++ MP), Permutation (map row_out main) main_api, map mv_out mv = MP.
   (B) "the model satisfies the property" is stated on the list api_join returns
       (complete_spec / sound_spec / missing_spec / empty_spec of Spec/JoinSpec.v, Spec/MetaSpec.v).

   Here: (i) the four specifications are invariant under permutation of the observed rows,
   (ii) the `_id` column of `numbered rows` is 0 .. n-1 and dropping it gives back `rows`,
   (iii) the key-level view of the rows of the returned frame (`code_obs`: row_out on the main part,
   mv_out on the missing-value part; `kview`: ONE view for all rows that reads a NaN score as absent) is
   a permutation of what api_join returns; hence every permutation-invariant property of the model's
   output holds of the code's output (`code_level_transfer`).  Axiom-free.                          *)
From Coq Require Import ZArith Bool List String Lia Permutation SpecFloat.
From SSJ Require Import F64 PyNum HelperGen TokenOrdering Measures Filters Joins Api JoinSpec MetaSpec
     Projection ProjSpec ProjectionFacts Frame WrapperRefineFrame WrapperRefineMissing WrapperRefineCore WrapperRefineApi
     WrapperApiLink WrapperEnd.
Import ListNotations.
Open Scope Z_scope.

(* ------------------------------------------------------------------ (i) permutation invariance *)
Lemma has_pair_perm lk rk a b : Permutation a b -> has_pair lk rk a = has_pair lk rk b.
Proof.
  intros P. unfold has_pair. induction P as [|x a b P IH|x y a|a b d P1 IH1 P2 IH2]; cbn [existsb].
  - reflexivity.
  - now rewrite IH.
  - rewrite !orb_assoc. f_equal. apply orb_comm.
  - now rewrite IH1.
Qed.

Lemma count_pair_perm lk rk a b : Permutation a b -> count_pair lk rk a = count_pair lk rk b.
Proof.
  intros P. unfold count_pair. induction P as [|x a b P IH|x y a|a b d P1 IH1 P2 IH2]; cbn [filter].
  - reflexivity.
  - destruct (_ && _); cbn [List.length]; now rewrite IH.
  - destruct (Z.eqb (fst (fst y)) lk && Z.eqb (snd (fst y)) rk), (Z.eqb (fst (fst x)) lk && Z.eqb (snd (fst x)) rk);
      reflexivity.
  - now rewrite IH1.
Qed.

Lemma forallb_perm {A} (f : A -> bool) a b : Permutation a b -> forallb f a = forallb f b.
Proof.
  intros P. induction P as [|x a b P IH|x y a|a b d P1 IH1 P2 IH2]; cbn [forallb].
  - reflexivity.
  - now rewrite IH.
  - rewrite !andb_assoc. f_equal. apply andb_comm.
  - now rewrite IH1.
Qed.

Lemma forallb_ext2 {A} (f g : A -> bool) l : (forall x, f x = g x) -> forallb f l = forallb g l.
Proof. intros H. induction l as [|x l IH]; cbn [forallb]; [reflexivity | now rewrite H, IH]. Qed.

Lemma complete_spec_perm c a b : Permutation a b -> complete_spec c a = complete_spec c b.
Proof.
  intros P. unfold complete_spec. apply forallb_ext2. intros l. apply forallb_ext2. intros r.
  rewrite (has_pair_perm (fst l) (fst r) a b P). reflexivity.
Qed.

Lemma sound_row_perm c a b o : Permutation a b -> sound_row c a o = sound_row c b o.
Proof.
  intros P. unfold sound_row. destruct o as [[lk rk] s].
  rewrite (count_pair_perm lk rk a b P). reflexivity.
Qed.

Lemma sound_spec_perm c a b : Permutation a b -> sound_spec c a = sound_spec c b.
Proof.
  intros P. unfold sound_spec. rewrite (forallb_perm (sound_row c a) a b P).
  apply forallb_ext2. intros o. apply sound_row_perm. exact P.
Qed.

Lemma missing_spec_perm c a b : Permutation a b -> missing_spec c a = missing_spec c b.
Proof.
  intros P. unfold missing_spec, forall_pairs. apply forallb_ext2. intros l. apply forallb_ext2. intros r.
  rewrite (count_pair_perm (fst l) (fst r) a b P). reflexivity.
Qed.

Lemma empty_spec_perm c a b : Permutation a b -> empty_spec c a = empty_spec c b.
Proof.
  intros P. unfold empty_spec, forall_pairs. apply forallb_ext2. intros l. apply forallb_ext2. intros r.
  rewrite (has_pair_perm (fst l) (fst r) a b P). reflexivity.
Qed.

(* the four specifications together (the same proposition as ApiFilterClosed.all_specs) *)
Definition four_specs (c : jcase) (obs : list out_row) : Prop :=
  complete_spec c obs = true /\ sound_spec c obs = true /\
  missing_spec c obs = true /\ empty_spec c obs = true.

Lemma four_specs_perm c a b : Permutation a b -> four_specs c a -> four_specs c b.
Proof.
  intros P (H1 & H2 & H3 & H4).
  rewrite (complete_spec_perm c a b P) in H1. rewrite (sound_spec_perm c a b P) in H2.
  rewrite (missing_spec_perm c a b P) in H3. rewrite (empty_spec_perm c a b P) in H4.
  repeat split; assumption.
Qed.

(* a property of observed results that does not depend on the order of the rows *)
Definition perm_invariant (P : list out_row -> Prop) : Prop :=
  forall a b, Permutation a b -> P a -> P b.

Lemma four_specs_invariant c : perm_invariant (four_specs c).
Proof. intros a b. apply four_specs_perm. Qed.
Lemma has_pair_invariant lk rk v : perm_invariant (fun obs => has_pair lk rk obs = v).
Proof. intros a b P H. now rewrite <- (has_pair_perm lk rk a b P). Qed.

(* ------------------------------------------------------------------ (ii) the _id column *)
Lemma numbered_from_cons (k : nat) (r : list pyval) (rows : list (list pyval)) :
  map (fun xr : pyval * list pyval => fst xr :: snd xr)
      (combine (map (fun k => PInt (Z.of_nat k)) (seq k (S (List.length rows)))) (r :: rows))
  = (PInt (Z.of_nat k) :: r)
    :: map (fun xr : pyval * list pyval => fst xr :: snd xr)
           (combine (map (fun k => PInt (Z.of_nat k)) (seq (S k) (List.length rows))) rows).
Proof. reflexivity. Qed.

Lemma numbered_gen_tl (rows : list (list pyval)) : forall k,
  map (@tl pyval) (map (fun xr : pyval * list pyval => fst xr :: snd xr)
      (combine (map (fun k => PInt (Z.of_nat k)) (seq k (List.length rows))) rows)) = rows.
Proof.
  induction rows as [|r rows IH]; intros k; [reflexivity|].
  cbn [List.length]. rewrite numbered_from_cons. cbn [map tl]. now rewrite IH.
Qed.
Lemma numbered_gen_ids (rows : list (list pyval)) : forall k,
  map (fun r => nth 0 r PNone) (map (fun xr : pyval * list pyval => fst xr :: snd xr)
      (combine (map (fun k => PInt (Z.of_nat k)) (seq k (List.length rows))) rows))
  = map (fun k => PInt (Z.of_nat k)) (seq k (List.length rows)).
Proof.
  induction rows as [|r rows IH]; intros k; [reflexivity|].
  cbn [List.length]. rewrite numbered_from_cons. cbn [map nth seq]. now rewrite IH.
Qed.

(* dropping the leading cell of every row of `numbered rows` gives `rows` back ... *)
Lemma numbered_tl rows : map (@tl pyval) (numbered rows) = rows.
Proof. apply numbered_gen_tl. Qed.
(* ... and that leading cell is the position of the row: the `_id` column is 0, 1, .., n-1 *)
Lemma numbered_ids rows :
  map (fun r => nth 0 r PNone) (numbered rows) = map (fun k => PInt (Z.of_nat k)) (seq 0 (List.length rows)).
Proof. apply numbered_gen_ids. Qed.
Lemma numbered_length rows : List.length (numbered rows) = List.length rows.
Proof. rewrite <- (numbered_tl rows) at 2. now rewrite map_length. Qed.

Definition id_of (r : list pyval) : Z := match nth 0 r PNone with PInt z => z | _ => -1 end.
Lemma list_eqbZ_refl l : list_eqbZ l l = true.
Proof. induction l as [|x l IH]; cbn; [reflexivity | now rewrite Z.eqb_refl, IH]. Qed.
(* MetaSpec.ids_ok (the boolean the harness evaluates on the `_id` column) holds of every numbered frame *)
Lemma numbered_ids_ok rows : ids_ok (map id_of (numbered rows)) = true.
Proof.
  unfold ids_ok. rewrite map_length, numbered_length.
  assert (E : map id_of (numbered rows) = map Z.of_nat (seq 0 (List.length rows))).
  { unfold id_of. rewrite <- (map_map (fun r => nth 0 r PNone) (fun v => match v with PInt z => z | _ => -1 end)).
    rewrite numbered_ids, map_map. reflexivity. }
  rewrite E. apply list_eqbZ_refl.
Qed.

(* ------------------------------------------------------------------ (iii) views of the returned rows *)
Section Views.
  Variables (c : pcase) (kz : pyval -> Z).

  Definition nan_absent (s : pyval) : pyval :=
    match s with PFloat f => if f_is_nan f then PNone else s | _ => s end.
  (* one key-level view for EVERY row of the returned frame (without its _id cell):
     (left key, right key, score), a NaN score read as "absent" -- the encoding of Api.out_row *)
  Definition kview (r : list pyval) : out_row :=
    (kz (nth 0 r PNone), kz (nth 1 r PNone), if p_score c then nan_absent (last r PNone) else PNone).

  Lemma kview_row_out r :
    (p_score c = true -> nan_absent (last r PNone) = last r PNone) -> kview r = row_out c kz r.
  Proof. unfold kview, row_out. destruct (p_score c); [intros H; now rewrite H | reflexivity]. Qed.

  Lemma last_snoc {A} (l : list A) x d : last (l ++ [x]) d = x.
  Proof. induction l as [|y l IH]; [reflexivity|]. cbn [app]. destruct (l ++ [x])%list eqn:E; [destruct l; discriminate E|]. exact IH. Qed.

  Lemma kview_mv_row l r : kview (mv_row c l r) = mv_out kz (mv_row c l r).
  Proof.
    unfold kview, mv_out, mv_row. destruct (p_score c); [|reflexivity].
    rewrite last_snoc. reflexivity.
  Qed.

  Lemma kview_mv_rows lsrc rsrc : map kview (mv_rows c lsrc rsrc) = map (mv_out kz) (mv_rows c lsrc rsrc).
  Proof.
    apply map_ext_in. intros row Hr. unfold mv_rows in Hr. apply in_app_or in Hr.
    destruct Hr as [Hr|Hr]; apply in_flat_map in Hr; destruct Hr as (x & _ & Hr);
      apply in_map_iff in Hr; destruct Hr as (y & <- & _); apply kview_mv_row.
  Qed.
End Views.

(* score_same never accepts a NaN *)
Lemma pv_eqb_nan_l f x : f_is_nan f = true -> pv_eqb (PFloat f) x = false.
Proof. intros H. destruct f; try discriminate H. destruct x; reflexivity. Qed.
Lemma score_same_not_nan f x : score_same (PFloat f) x = true -> f_is_nan f = false.
Proof.
  intros H. destruct (f_is_nan f) eqn:E; [|reflexivity].
  unfold score_same in H. destruct x; try discriminate H; rewrite (pv_eqb_nan_l f _ E) in H; discriminate H.
Qed.
Lemma score_same_nan_absent s x : score_same s x = true -> nan_absent s = s.
Proof.
  destruct s; try reflexivity. intros H. cbn [nan_absent]. now rewrite (score_same_not_nan _ _ H).
Qed.

(* a row the model reports WITH its score never carries a NaN: by soundness its score is score_same to the
   score the specification prescribes.  (Filters have no score column; with_score = false is trivial.) *)
Definition scored_entry (jc : jcase) : Prop :=
  match j_entry jc with EFilter _ _ => j_with_score jc = false | _ => True end.

Lemma sound_row_score jc obs lk rk s :
  scored_entry jc -> j_with_score jc = true -> sound_row jc obs (lk, rk, s) = true -> nan_absent s = s.
Proof.
  intros Hse Hws H. unfold sound_row in H.
  destruct (find_row lk (j_L jc)) as [l|]; [|discriminate H].
  destruct (find_row rk (j_R jc)) as [r|]; [|discriminate H].
  apply andb_prop in H. destruct H as [_ H].
  destruct (present l && present r).
  - unfold scored_entry in Hse. rewrite Hws in H. destruct (j_entry jc) as [m|k m|].
    + destruct (String.eqb m "EDIT_DISTANCE").
      * apply andb_prop in H. destruct H as [_ H]. exact (score_same_nan_absent _ _ H).
      * destruct ((len (toks_of l) =? 0) && (len (toks_of r) =? 0)).
        -- apply andb_prop in H. destruct H as [_ H]. exact (score_same_nan_absent _ _ H).
        -- apply andb_prop in H. destruct H as [_ H]. exact (score_same_nan_absent _ _ H).
    + rewrite Hws in Hse. discriminate Hse.
    + apply andb_prop in H. destruct H as [_ H]. exact (score_same_nan_absent _ _ H).
  - apply andb_prop in H. destruct H as [_ H]. exact (score_same_nan_absent _ _ H).
Qed.

(* ------------------------------------------------------------------ the composition *)
Section Compose.
  Variables (c : pcase) (am : bool) (lsrc rsrc : list (list pyval)).
  Variables (toks str : pyval -> list Z) (kz : pyval -> Z).
  Variable jc : jcase.

  (* the missing-value rows the wrapper appends *)
  Definition mv_part : list (list pyval) := if am then mv_rows c lsrc rsrc else [].

  (* key-level view of the rows of the returned frame: main part, then missing-value part *)
  Definition code_obs (main : list (list pyval)) : list out_row :=
    (map (row_out c kz) main ++ map (mv_out kz) mv_part)%list.

  (* the frame W returns, and the model's result as a permutation of its key-level view *)
  Definition code_result (lhs : pyval) (P : list out_row -> Prop) : Prop :=
    exists main : list (list pyval),
      lhs = sframe (header_spec c) (numbered (main ++ mv_part)) /\ P (code_obs main).

  Lemma flat_code_obs lhs :
    end_to_end_flat c am lsrc rsrc toks str kz jc lhs ->
    exists main out,
      lhs = sframe (header_spec c) (numbered (main ++ mv_part)) /\
      api_join jc = Some out /\ Permutation out (code_obs main).
  Proof.
    intros (main & main_api & E1 & E2 & Pm & E3).
    exists main. eexists. split; [exact E1|]. split; [exact E2|].
    unfold code_obs, mv_part. apply Permutation_app.
    - apply Permutation_sym. exact Pm.
    - destruct am; [rewrite E3; apply Permutation_refl | apply Permutation_refl].
  Qed.

  (* THE TRANSFER: whatever order-independent property the model's result has, the code's result has *)
  Theorem code_level_transfer lhs (P : list out_row -> Prop) :
    perm_invariant P ->
    end_to_end_flat c am lsrc rsrc toks str kz jc lhs ->
    (forall out, api_join jc = Some out -> P out) ->
    code_result lhs P.
  Proof.
    intros HP He HB. destruct (flat_code_obs lhs He) as (main & out & E1 & E2 & Pm).
    exists main. split; [exact E1|]. exact (HP out _ Pm (HB out E2)).
  Qed.

  Corollary code_level_four_specs lhs :
    end_to_end_flat c am lsrc rsrc toks str kz jc lhs ->
    (forall out, api_join jc = Some out -> four_specs jc out) ->
    code_result lhs (four_specs jc).
  Proof. apply code_level_transfer. apply four_specs_invariant. Qed.

  (* the same with ONE view for all rows (kview: NaN score = absent), for the entries that report scores *)
  Hypothesis Hjs : j_with_score jc = p_score c.
  Hypothesis Hse : scored_entry jc.

  Lemma code_obs_kview main :
    sound_spec jc (code_obs main) = true -> map (kview c kz) (main ++ mv_part) = code_obs main.
  Proof.
    intros Hs. unfold code_obs. rewrite map_app. f_equal.
    - apply map_ext_in. intros r Hr. apply kview_row_out. intros Hsc.
      unfold sound_spec in Hs. rewrite forallb_forall in Hs.
      assert (Hin : In (row_out c kz r) (code_obs main)).
      { unfold code_obs. apply in_or_app. left. apply in_map. exact Hr. }
      specialize (Hs _ Hin). unfold row_out in Hs. rewrite Hsc in Hs.
      apply (sound_row_score jc _ _ _ _ Hse) in Hs; [exact Hs | now rewrite Hjs].
    - unfold mv_part. destruct am; [apply kview_mv_rows | reflexivity].
  Qed.

  Definition code_result_kview (lhs : pyval) (P : list out_row -> Prop) : Prop :=
    exists rows : list (list pyval),
      lhs = sframe (header_spec c) (numbered rows) /\ P (map (kview c kz) rows).

  Theorem code_level_four_specs_kview lhs :
    end_to_end_flat c am lsrc rsrc toks str kz jc lhs ->
    (forall out, api_join jc = Some out -> four_specs jc out) ->
    code_result_kview lhs (four_specs jc).
  Proof.
    intros He HB. destruct (code_level_four_specs lhs He HB) as (main & E1 & HS).
    exists (main ++ mv_part)%list. split; [exact E1|].
    rewrite (code_obs_kview main (proj1 (proj2 HS))). exact HS.
  Qed.
End Compose.

(* ------------------------------------------------------------------ the tables as the API model sees them *)
Definition lkeyz (c : pcase) (kz : pyval -> Z) (row : list pyval) : Z := kz (cellv (p_lcols c) row (p_lkey c)).
Definition rkeyz (c : pcase) (kz : pyval -> Z) (row : list pyval) : Z := kz (cellv (p_rcols c) row (p_rkey c)).
Definition lcell (c : pcase) (row : list pyval) : pyval := cellv (p_lcols c) row (p_ljoin c).
Definition rcell (c : pcase) (row : list pyval) : pyval := cellv (p_rcols c) row (p_rjoin c).

(* what the model-level theorems ask of the two tables and what the end-to-end theorems do not give:
   unique keys (under the key abstraction kz), and a property Q of the join cells of the present rows *)
Definition keys_unique (c : pcase) (kz : pyval -> Z) (lsrc rsrc : list (list pyval)) : Prop :=
  NoDup (map (lkeyz c kz) lsrc) /\ NoDup (map (rkeyz c kz) rsrc).
Definition cells_sat (c : pcase) (lsrc rsrc : list (list pyval)) (Q : pyval -> Prop) : Prop :=
  (forall row, In row (lpresent c lsrc) -> Q (lcell c row)) /\ (forall row, In row (rpresent c rsrc) -> Q (rcell c row)).

Section Tables.
  Variables (c : pcase) (lsrc rsrc : list (list pyval)).
  Variables (toks str : pyval -> list Z) (kz : pyval -> Z).

  Lemma keysL : map fst (map (arowLs c toks str kz) lsrc) = map (lkeyz c kz) lsrc.
  Proof. rewrite map_map. reflexivity. Qed.
  Lemma keysR : map fst (map (arowRs c toks str kz) rsrc) = map (rkeyz c kz) rsrc.
  Proof. rewrite map_map. reflexivity. Qed.

  Lemma arowLs_present r : In r (map (arowLs c toks str kz) lsrc) -> present r = true ->
    exists row, In row (lpresent c lsrc) /\ toks_of r = toks (lcell c row) /\ str_of r = str (lcell c row).
  Proof.
    intros Hr Hp. apply in_map_iff in Hr. destruct Hr as (row & <- & Hin).
    rewrite presentLs in Hp. exists row. split; [apply filter_In; split; assumption|].
    unfold toks_of, str_of, arowLs. cbn [snd]. rewrite Hp. split; reflexivity.
  Qed.
  Lemma arowRs_present r : In r (map (arowRs c toks str kz) rsrc) -> present r = true ->
    exists row, In row (rpresent c rsrc) /\ toks_of r = toks (rcell c row) /\ str_of r = str (rcell c row).
  Proof.
    intros Hr Hp. apply in_map_iff in Hr. destruct Hr as (row & <- & Hin).
    rewrite presentRs in Hp. exists row. split; [apply filter_In; split; assumption|].
    unfold toks_of, str_of, arowRs. cbn [snd]. rewrite Hp. split; reflexivity.
  Qed.
  Lemma absent_toks (r : Api.row) : present r = false -> toks_of r = [].
  Proof. unfold present, toks_of. destruct (snd r) as [[s t]|]; [discriminate | reflexivity]. Qed.

  Lemma rpresent_length : (List.length (rpresent c rsrc) <= List.length rsrc)%nat.
  Proof. unfold rpresent. induction rsrc as [|r l IH]; cbn [filter List.length]; [lia|]. destruct (present_row _ _ r); cbn [List.length]; lia. Qed.
End Tables.

Print Assumptions four_specs_perm.
Print Assumptions numbered_ids_ok.
Print Assumptions code_level_transfer.
Print Assumptions code_level_four_specs_kview.
