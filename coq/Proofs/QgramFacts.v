(* The count filter for q-grams (model Ext/Qgram.v):
   - qgram_bag_length: size of the q-gram bag;
   - qgram_one_edit: one single-character edit destroys at most q q-grams;
   - count_filter: strings at edit distance d share at least max(|G s|,|G t|) - q*d q-grams
     (bag semantics).
   Stdlib only. *)
From Coq Require Import ZArith List Lia Arith Bool.
From SSJ Require Import Prefix Lev Qgram LevFacts BagFacts.
Import ListNotations.
Local Open Scope nat_scope.

(* ------------------------------------------------------------------ *)
(* fuel-free version of `windows`                                      *)

Fixpoint wins (q : nat) (s : list Z) : list (list Z) :=
  match s with
  | [] => []
  | c :: s' => if Nat.leb q (S (length s')) then firstn q (c :: s') :: wins q s' else []
  end.

Lemma windows_wins q : 1 <= q -> forall fuel s, length s < fuel -> windows q s fuel = wins q s.
Proof.
  intros Hq. induction fuel as [|k IH]; intros s Hs; [lia|].
  destruct s as [|c s'].
  - cbn [windows wins length]. destruct (Nat.leb_spec q 0); [lia|reflexivity].
  - cbn [windows wins length tl]. destruct (Nat.leb q (S (length s'))); [|reflexivity].
    rewrite IH by (simpl in Hs; lia). reflexivity.
Qed.

Lemma wins_short q s : length s < q -> wins q s = [].
Proof.
  destruct s as [|c s']; [reflexivity|]. intros H. cbn [wins].
  destruct (Nat.leb_spec q (S (length s'))); [simpl in H; lia|reflexivity].
Qed.

Lemma wins_length q : 1 <= q -> forall s, length (wins q s) = length s + 1 - q.
Proof.
  intros Hq. induction s as [|c s IH]; [cbn [wins length]; lia|].
  cbn [wins]. destruct (Nat.leb_spec q (S (length s))); cbn [length]; [rewrite IH|]; lia.
Qed.

(* the windows of a prefix are a prefix of the windows *)
Lemma wins_prefix q : forall A R, exists rest, wins q (A ++ R) = wins q A ++ rest.
Proof.
  induction A as [|c A IH]; intros R.
  - exists (wins q R). reflexivity.
  - cbn [wins app]. destruct (Nat.leb_spec q (S (length A))) as [Hle|Hgt].
    + destruct (Nat.leb_spec q (S (length (A ++ R)))) as [_|Hgt'];
        [|rewrite app_length in Hgt'; lia].
      destruct (IH R) as [rest Hr]. exists rest. rewrite Hr.
      change (c :: A ++ R) with ((c :: A) ++ R). rewrite firstn_app.
      replace (q - length (c :: A)) with 0 by (simpl; lia).
      rewrite firstn_O, app_nil_r. reflexivity.
    + eexists. reflexivity.
Qed.

Lemma firstn_app_firstn (n : nat) (A B : list Z) : firstn n (A ++ firstn n B) = firstn n (A ++ B).
Proof.
  rewrite !firstn_app, firstn_firstn. f_equal. f_equal. lia.
Qed.

(* the windows that start inside A only see the first q-1 characters of B *)
Lemma wins_split q : 1 <= q -> forall A B,
  wins q (A ++ B) = wins q (A ++ firstn (q - 1) B) ++ wins q B.
Proof.
  intros Hq. induction A as [|c A IH]; intros B.
  - cbn [app]. rewrite (wins_short q (firstn (q - 1) B)); [reflexivity|].
    rewrite firstn_length. lia.
  - cbn [wins app].
    destruct (Nat.leb_spec q (S (length (A ++ B)))) as [Hle|Hgt].
    + destruct (Nat.leb_spec q (S (length (A ++ firstn (q - 1) B)))) as [_|Hgt'].
      * rewrite IH. cbn [app]. f_equal.
        destruct q as [|q']; [lia|]. cbn [firstn]. f_equal.
        replace (S q' - 1) with q' by lia. symmetry. apply firstn_app_firstn.
      * rewrite app_length, firstn_length in *. lia.
    + rewrite (wins_short q B) by (rewrite app_length in Hgt; lia).
      destruct (Nat.leb_spec q (S (length (A ++ firstn (q - 1) B)))) as [Hle'|_];
        [|reflexivity].
      rewrite app_length, firstn_length in *. lia.
Qed.

(* replacing the middle part M of A ++ M ++ B only affects |M| + q - 1 windows *)
Lemma wins_decomp q A M B : 1 <= q ->
  exists rest, wins q (A ++ M ++ B) = wins q A ++ rest ++ wins q B
               /\ length rest <= length M + (q - 1).
Proof.
  intros Hq. rewrite app_assoc, (wins_split q Hq (A ++ M) B), <- app_assoc.
  destruct (wins_prefix q A (M ++ firstn (q - 1) B)) as [rest Hr].
  exists rest. split; [rewrite Hr, <- app_assoc; reflexivity|].
  apply (f_equal (@length _)) in Hr.
  rewrite app_length, !(wins_length q Hq), !app_length, firstn_length in Hr. lia.
Qed.

(* ------------------------------------------------------------------ *)
(* size of the bags                                                    *)

Definition qpadded (tk : qgram_tok) (s : list Z) : list Z :=
  let q := Z.to_nat (qq tk) in
  if qpad tk then repeat (qpre tk) (q - 1) ++ s ++ repeat (qsuf tk) (q - 1) else s.

Lemma qgram_bag_wins tk s : (1 <= qq tk)%Z ->
  qgram_bag tk s = map encode (wins (Z.to_nat (qq tk)) (qpadded tk s)).
Proof.
  intros Hq. unfold qgram_bag, qpadded. cbv zeta.
  rewrite windows_wins; [reflexivity|lia|lia].
Qed.

Theorem qgram_bag_length : forall tk s, (1 <= qq tk)%Z ->
  length (qgram_bag tk s) =
  (if qpad tk then length s + Z.to_nat (qq tk) - 1 else length s + 1 - Z.to_nat (qq tk)).
Proof.
  intros tk s Hq. rewrite (qgram_bag_wins tk s Hq), map_length, wins_length by lia.
  unfold qpadded. cbv zeta. destruct (qpad tk); [|reflexivity].
  rewrite !app_length, !repeat_length. lia.
Qed.

(* ------------------------------------------------------------------ *)
(* one edit                                                            *)

Lemma one_edit_core q A x y B : 1 <= q -> length x <= 1 ->
  length (map encode (wins q (A ++ x ++ B)))
  <= ovl (map encode (wins q (A ++ x ++ B))) (map encode (wins q (A ++ y ++ B))) + q.
Proof.
  intros Hq Hx.
  destruct (wins_decomp q A x B Hq) as [rx [Ex Lx]].
  destruct (wins_decomp q A y B Hq) as [ry [Ey _]].
  rewrite Ex, Ey, !map_app.
  pose proof (ovl_common_app (map encode (wins q A)) (map encode (wins q B))
                             (map encode rx) (map encode ry)) as H.
  rewrite !app_length, !map_length in *. lia.
Qed.

Lemma edit1_shape s u : edit1 s u ->
  exists a x y b, s = a ++ x ++ b /\ u = a ++ y ++ b /\ length x <= 1 /\ length y <= 1.
Proof.
  intros H; destruct H as [a b c|a b c|a b c d].
  - exists a, [], [c], b. simpl. auto.
  - exists a, [c], [], b. simpl. auto.
  - exists a, [c], [d], b. simpl. auto.
Qed.

Lemma qpadded_shape tk a b : exists A B, forall m : list Z, qpadded tk (a ++ m ++ b) = A ++ m ++ B.
Proof.
  unfold qpadded. cbv zeta. destruct (qpad tk).
  - exists (repeat (qpre tk) (Z.to_nat (qq tk) - 1) ++ a), (b ++ repeat (qsuf tk) (Z.to_nat (qq tk) - 1)).
    intros m'. rewrite <- !app_assoc. reflexivity.
  - exists a, b. reflexivity.
Qed.

Theorem qgram_one_edit : forall tk s u, (1 <= qq tk)%Z -> edit1 s u ->
  length (qgram_bag tk s) <= ovl (qgram_bag tk s) (qgram_bag tk u) + Z.to_nat (qq tk).
Proof.
  intros tk s u Hq He.
  destruct (edit1_shape s u He) as [a [x [y [b [-> [-> [Hx _]]]]]]].
  rewrite !qgram_bag_wins by exact Hq.
  destruct (qpadded_shape tk a b) as [A [B HAB]]. rewrite !HAB.
  apply one_edit_core; [lia|exact Hx].
Qed.

(* ------------------------------------------------------------------ *)
(* the count filter                                                    *)

Lemma count_filter_script tk : (1 <= qq tk)%Z -> forall n s t, editn n s t ->
  length (qgram_bag tk s) <= ovl (qgram_bag tk s) (qgram_bag tk t) + Z.to_nat (qq tk) * n /\
  length (qgram_bag tk t) <= ovl (qgram_bag tk s) (qgram_bag tk t) + Z.to_nat (qq tk) * n.
Proof.
  intros Hq. induction 1 as [s|n s u t H1 _ [IHs IHt]].
  - assert (length (qgram_bag tk s) <= ovl (qgram_bag tk s) (qgram_bag tk s)).
    { apply (ovl_common (qgram_bag tk s)); intros v; lia. }
    lia.
  - pose proof (qgram_one_edit tk s u Hq H1) as F1.
    pose proof (qgram_one_edit tk u s Hq (edit1_sym _ _ H1)) as F2.
    rewrite (ovl_sym (qgram_bag tk u) (qgram_bag tk s)) in F2.
    pose proof (ovl_triangle (qgram_bag tk s) (qgram_bag tk u) (qgram_bag tk t)) as T1.
    pose proof (ovl_triangle (qgram_bag tk t) (qgram_bag tk u) (qgram_bag tk s)) as T2.
    rewrite (ovl_sym (qgram_bag tk t) (qgram_bag tk u)),
            (ovl_sym (qgram_bag tk t) (qgram_bag tk s)) in T2.
    split; lia.
Qed.

Theorem count_filter : forall tk s t, (1 <= qq tk)%Z ->
  (Z.max (Z.of_nat (length (qgram_bag tk s))) (Z.of_nat (length (qgram_bag tk t)))
   - qq tk * Z.of_nat (lev_spec s t)
   <= Z.of_nat (ovl (qgram_bag tk s) (qgram_bag tk t)))%Z.
Proof.
  intros tk s t Hq.
  destruct (count_filter_script tk Hq _ s t (lev_spec_script s t)) as [H1 H2].
  apply Nat2Z.inj_le in H1, H2.
  rewrite Nat2Z.inj_add, Nat2Z.inj_mul, Z2Nat.id in H1, H2 by lia.
  lia.
Qed.

(* the same statement about the executable dynamic programme `lev` *)
Corollary count_filter_lev : forall tk s t, (1 <= qq tk)%Z ->
  (Z.max (Z.of_nat (length (qgram_bag tk s))) (Z.of_nat (length (qgram_bag tk t)))
   - qq tk * lev s t
   <= Z.of_nat (ovl (qgram_bag tk s) (qgram_bag tk t)))%Z.
Proof. intros tk s t Hq. rewrite lev_dp_correct. apply count_filter. exact Hq. Qed.
