(* Comparison facts on SpecFloat values used by the metamorphic laws: structural equality modulo
   the sign of zero (`feq`), SFcompare / cmp_Z_f respect it, an integer is compared consistently
   with a float it equals, and two VALID floats that both equal the same integer are equal.
   Pure Z / positive reasoning.  Axiom-free.                                                *)
From Coq Require Import ZArith Bool Lia SpecFloat.
From SSJ Require Import F64.
Open Scope Z_scope.

(* structural equality, except that the two zeros are identified (and nan ~ nan) *)
Definition feq (f g : f64) : bool :=
  match f, g with
  | S754_zero _, S754_zero _ => true
  | S754_infinity s, S754_infinity s' => Bool.eqb s s'
  | S754_nan, S754_nan => true
  | S754_finite s m e, S754_finite s' m' e' => Bool.eqb s s' && Pos.eqb m m' && Z.eqb e e'
  | _, _ => false
  end.

Lemma feq_cases f g : feq f g = true ->
  f = g \/ (exists s s', f = S754_zero s /\ g = S754_zero s').
Proof.
  destruct f as [s|s| |s m e], g as [s'|s'| |s' m' e']; simpl; try discriminate.
  - intros _. right. eauto.
  - intros H. apply eqb_prop in H. subst. auto.
  - auto.
  - rewrite !andb_true_iff, Pos.eqb_eq, Z.eqb_eq. intros [[H1 ->] ->]. apply eqb_prop in H1. subst. auto.
Qed.

Lemma feq_refl f : feq f f = true.
Proof.
  destruct f as [s|s| |s m e]; simpl; auto using eqb_reflx.
  rewrite eqb_reflx, Pos.eqb_refl, Z.eqb_refl. reflexivity.
Qed.

Lemma feq_sym f g : feq f g = true -> feq g f = true.
Proof.
  intros H. destruct (feq_cases _ _ H) as [->|[s [s' [-> ->]]]]; [apply feq_refl | reflexivity].
Qed.

Lemma feq_trans f g h : feq f g = true -> feq g h = true -> feq f h = true.
Proof.
  intros H1 H2. destruct (feq_cases _ _ H1) as [->|[s [s' [-> ->]]]]; [exact H2|].
  destruct (feq_cases _ _ H2) as [<-|[s1 [s2 [E ->]]]]; reflexivity.
Qed.

Lemma SFcompare_feq_l f g h : feq f g = true -> SFcompare f h = SFcompare g h.
Proof. intros H. destruct (feq_cases _ _ H) as [->|[s [s' [-> ->]]]]; reflexivity. Qed.

Lemma SFcompare_feq_r f g h : feq f g = true -> SFcompare h f = SFcompare h g.
Proof.
  intros H. destruct (feq_cases _ _ H) as [->|[s [s' [-> ->]]]]; [reflexivity|].
  destruct h; reflexivity.
Qed.

Lemma cmp_Z_f_feq z f g : feq f g = true -> cmp_Z_f z f = cmp_Z_f z g.
Proof. intros H. destruct (feq_cases _ _ H) as [->|[s [s' [-> ->]]]]; reflexivity. Qed.

Lemma SFcompare_eq_feq f g : SFcompare f g = Some Eq -> feq f g = true.
Proof.
  destruct f as [s|s| |s m e], g as [s'|s'| |s' m' e']; simpl; try discriminate; try reflexivity;
    try (destruct s; discriminate); try (destruct s'; discriminate).
  - destruct s, s'; try discriminate; reflexivity.
  - destruct s, s'; try discriminate; destruct (e ?= e') eqn:Ec; try discriminate; intros H;
      apply Z.compare_eq in Ec; subst; rewrite Z.eqb_refl, andb_true_r; simpl; apply Pos.eqb_eq.
    + apply Pos.compare_eq. injection H as H. destruct (Pos.compare_cont Eq m m') eqn:E; try discriminate.
      exact E.
    + apply Pos.compare_eq. injection H as H. exact H.
Qed.

Lemma SFcompare_refl f : f_is_nan f = false -> SFcompare f f = Some Eq.
Proof.
  destruct f as [s|s| |s m e]; simpl; try discriminate; intros _; try reflexivity.
  - destruct s; reflexivity.
  - rewrite Z.compare_refl, Pos.compare_cont_refl. destruct s; reflexivity.
Qed.

Lemma SFcompare_some_not_nan f g c : SFcompare f g = Some c -> f_is_nan f = false /\ f_is_nan g = false.
Proof. destruct f, g; simpl; try discriminate; auto. Qed.

Lemma feq_SFcompare f g : feq f g = true -> f_is_nan f = false -> SFcompare f g = Some Eq.
Proof. intros H Hn. rewrite <- (SFcompare_feq_r _ _ _ H). apply SFcompare_refl; exact Hn. Qed.

(* ------------------------------------------------------------------ an integer equal to a float *)
Lemma pow_pos_gt0 p : 0 < Z.pow_pos 2 p.
Proof. change (Z.pow_pos 2 p) with (2 ^ Z.pos p). apply Z.pow_pos_nonneg; lia. Qed.

(* if a equals the float f, comparing b with f is comparing b with a *)
Lemma cmp_Z_f_eq_compare a b f : cmp_Z_f a f = Some Eq -> cmp_Z_f b f = Some (b ?= a).
Proof.
  destruct f as [s|s| |s m e]; simpl; try discriminate.
  - intros H. injection H as H. apply Z.compare_eq in H. subst. reflexivity.
  - destruct s; discriminate.
  - destruct e as [|p|p]; intros H; injection H as H; apply Z.compare_eq in H.
    + subst. reflexivity.
    + subst. reflexivity.
    + rewrite <- H. f_equal. symmetry. apply Zmult_compare_compat_r. pose proof (pow_pos_gt0 p). lia.
Qed.

Lemma cmp_Z_f_eq_inj a b f : cmp_Z_f a f = Some Eq -> cmp_Z_f b f = Some Eq -> a = b.
Proof.
  intros Ha Hb. rewrite (cmp_Z_f_eq_compare _ _ _ Ha) in Hb. injection Hb as Hb.
  apply Z.compare_eq in Hb. auto.
Qed.

(* ------------------------------------------------------------------ canonical floats *)
Lemma digits2_log2 m : Z.pos (digits2_pos m) = Z.log2 (Z.pos m) + 1.
Proof.
  assert (forall p, digits2_pos p = Pos.size p) as Hs.
  { induction p as [p IH|p IH|]; simpl; rewrite ?IH; reflexivity. }
  destruct m as [p|p|]; simpl; rewrite ?Hs; lia.
Qed.

(* a common scaling: c * 2^K = (+-m) * 2^(e+K) for every K with 0 <= K, 0 <= e + K *)
Lemma cmp_Z_f_scaled c s m e K : cmp_Z_f c (S754_finite s m e) = Some Eq ->
  0 <= K -> 0 <= e + K -> c * 2 ^ K = (if s then Z.neg m else Z.pos m) * 2 ^ (e + K).
Proof.
  unfold cmp_Z_f. set (v := if s then Z.neg m else Z.pos m). intros H HK HeK.
  destruct e as [|p|p]; injection H as H; apply Z.compare_eq in H.
  - rewrite H, Z.mul_1_r. replace (0 + K) with K by lia. reflexivity.
  - rewrite H. rewrite Z.pow_add_r by lia. rewrite Z.mul_assoc. reflexivity.
  - change (Z.pow_pos 2 p) with (2 ^ Z.pos p) in H. rewrite <- H.
    replace K with (Z.pos p + (Z.neg p + K)) at 1 by lia.
    rewrite Z.pow_add_r by lia. rewrite Z.mul_assoc. reflexivity.
Qed.

Lemma canon_eq m e m' e' a a' :
  canonical_mantissa prec emax m e = true -> canonical_mantissa prec emax m' e' = true ->
  0 <= a -> 0 <= a' -> a - a' = e - e' ->
  Z.pos m * 2 ^ a = Z.pos m' * 2 ^ a' -> m = m' /\ e = e'.
Proof.
  unfold canonical_mantissa. intros Hc Hc' Ha Ha' Hd Hv.
  apply Zeq_bool_eq in Hc. apply Zeq_bool_eq in Hc'.
  assert (Z.log2 (Z.pos m * 2 ^ a) = Z.log2 (Z.pos m' * 2 ^ a')) as Hl by (rewrite Hv; reflexivity).
  rewrite !Z.log2_mul_pow2 in Hl by lia.
  rewrite !digits2_log2 in Hc, Hc'.
  assert (Z.log2 (Z.pos m) + 1 + e = Z.log2 (Z.pos m') + 1 + e') as Hde by lia.
  rewrite Hde in Hc. assert (e = e') as -> by congruence.
  assert (a = a') as -> by lia.
  split; [|reflexivity].
  apply Z.mul_reg_r in Hv; [congruence|]. apply Z.pow_nonzero; lia.
Qed.

(* two valid doubles that both equal the integer c compare Eq *)
Theorem cmp_Z_f_canon c g h :
  valid_binary prec emax g = true -> valid_binary prec emax h = true ->
  cmp_Z_f c g = Some Eq -> cmp_Z_f c h = Some Eq -> SFcompare g h = Some Eq.
Proof.
  intros Vg Vh Hg Hh.
  destruct g as [s|s| |s m e]; try (simpl in Hg; try destruct s; discriminate);
  destruct h as [s'|s'| |s' m' e']; try (simpl in Hh; try destruct s'; discriminate).
  - reflexivity.
  - exfalso. simpl in Hg. injection Hg as Hg. apply Z.compare_eq in Hg. subst c.
    pose proof (cmp_Z_f_scaled 0 s' m' e' (Z.abs e') Hh ltac:(lia) ltac:(lia)) as H.
    assert (0 < 2 ^ (e' + Z.abs e')) by (apply Z.pow_pos_nonneg; lia).
    destruct s'; nia.
  - exfalso. simpl in Hh. injection Hh as Hh. apply Z.compare_eq in Hh. subst c.
    pose proof (cmp_Z_f_scaled 0 s m e (Z.abs e) Hg ltac:(lia) ltac:(lia)) as H.
    assert (0 < 2 ^ (e + Z.abs e)) by (apply Z.pow_pos_nonneg; lia).
    destruct s; nia.
  - set (K := Z.abs e + Z.abs e').
    pose proof (cmp_Z_f_scaled c s m e K Hg ltac:(lia) ltac:(lia)) as H1.
    pose proof (cmp_Z_f_scaled c s' m' e' K Hh ltac:(lia) ltac:(lia)) as H2.
    assert (0 < 2 ^ (e + K)) as P1 by (apply Z.pow_pos_nonneg; lia).
    assert (0 < 2 ^ (e' + K)) as P2 by (apply Z.pow_pos_nonneg; lia).
    assert (0 < 2 ^ K) as P0 by (apply Z.pow_pos_nonneg; lia).
    simpl in Vg, Vh. unfold bounded in Vg, Vh.
    apply andb_true_iff in Vg. apply andb_true_iff in Vh. destruct Vg as [Cg _]. destruct Vh as [Ch _].
    assert (s = s') as <-.
    { destruct s, s'; try reflexivity; exfalso.
      - assert (c * 2 ^ K < 0) by (rewrite H1; nia). assert (0 < c * 2 ^ K) by (rewrite H2; nia). lia.
      - assert (c * 2 ^ K < 0) by (rewrite H2; nia). assert (0 < c * 2 ^ K) by (rewrite H1; nia). lia. }
    assert (Z.pos m * 2 ^ (e + K) = Z.pos m' * 2 ^ (e' + K)) as Hv.
    { destruct s; [|congruence].
      rewrite H1 in H2. change (Z.neg m) with (- Z.pos m) in H2. change (Z.neg m') with (- Z.pos m') in H2. lia. }
    destruct (canon_eq m e m' e' (e + K) (e' + K) Cg Ch ltac:(lia) ltac:(lia) ltac:(lia) Hv) as [<- <-].
    apply SFcompare_refl. reflexivity.
Qed.

(* the hypothesis of validity is necessary: both equal 2, not comparable as Eq *)
Example cmp_Z_f_noncanon :
  cmp_Z_f 2 (S754_finite false 2 0) = Some Eq /\ cmp_Z_f 2 (S754_finite false 1 1) = Some Eq /\
  SFcompare (S754_finite false 2 0) (S754_finite false 1 1) = Some Lt.
Proof. vm_compute. auto. Qed.

Print Assumptions SFcompare_eq_feq.
Print Assumptions cmp_Z_f_eq_compare.
Print Assumptions cmp_Z_f_canon.
