(* Glue between the index / filter refinement theorems (IndexRefine, IndexPrefix, IndexSize,
   IndexInverted) and (i) the token-ordering theorem (OrderingGenFacts), (ii) the totality of the
   generated filter_utils formulas.  After this file the candidate theorems carry no `row_ok`
   and no formula hypotheses: only `formulas_ok p bound` (discharged here for OVERLAP and
   EDIT_DISTANCE, in IndexGlueArith.v for JACCARD / COSINE / DICE), the tokenizer hypothesis
   `tokenizes`, "join cells are not raised exceptions", and the size bound.
   Lists / Z only: axiom-free.                                                           *)
From Coq Require Import ZArith Bool List String Lia.
From SSJ Require Import F64 PyNum FilterUtilsGen TokenOrderingGen IndexGen TokenOrdering Filters Measures
     IndexPyFacts IndexBuildFacts IndexProbeFacts IndexRefine IndexInverted IndexPrefix IndexSize
     OrderingFacts OrderingGenFacts OverlapMeasure EditArith Joins.
Import ListNotations.
Open Scope Z_scope.

(* ====================================================================== (1) formulas *)
(* what find_candidates needs from the four formulas for a probe of n tokens
   (= JoinGenLoop.probe_ok p y with n = len y) *)
Definition probe_formulas_ok (p : fparams) (n : Z) : Prop :=
  exists lb ub k, g_lb p n = PInt lb /\ g_ub p n = PInt ub /\ g_pl p n = PInt k /\
    forall s, 0 <= s -> lb <= s <= ub -> num_of (g_ot p s n) <> None.

Definition formulas_ok (p : fparams) (bound : Z) : Prop :=
  forall n, 0 <= n < bound -> probe_formulas_ok p n.

Lemma formulas_ok_pl p bound n : formulas_ok p bound -> 0 <= n < bound -> exists k, g_pl p n = PInt k.
Proof. intros H Hn. destruct (H n Hn) as (_ & _ & k & _ & _ & Hk & _). exists k. exact Hk. Qed.
Lemma formulas_ok_lb_ub p bound n : formulas_ok p bound -> 0 <= n < bound ->
  exists lb ub, g_lb p n = PInt lb /\ g_ub p n = PInt ub.
Proof. intros H Hn. destruct (H n Hn) as (lb & ub & _ & Hl & Hu & _). exists lb, ub. split; assumption. Qed.
Lemma formulas_ok_mono p b b' : b' <= b -> formulas_ok p b -> formulas_ok p b'.
Proof. intros Hb H n Hn. apply H. lia. Qed.

(* OVERLAP with any integer threshold, any size *)
Lemma formulas_ok_overlap T q bound : formulas_ok (ovp T q) bound.
Proof.
  intros n _. exists T, OverlapMeasure.maxsizeZ, (if n =? 0 then 0 else Z.max (n - T + 1) 0).
  split; [apply g_lb_ov|]. split; [apply g_ub_ov|]. split; [apply g_pl_ov|].
  intros s _ _. rewrite g_ot_ov. discriminate.
Qed.

(* EDIT_DISTANCE with integer threshold tau >= 0 and q >= 1, any size *)
Lemma formulas_ok_ed q tau bound : 0 <= tau -> 1 <= q -> formulas_ok (edp q tau) bound.
Proof.
  intros Ht Hq n Hn. exists (n - tau), (n + tau), (Z.min (q * tau + 1) n).
  split; [apply g_lb_ed|]. split; [apply g_ub_ed|]. split; [apply g_pl_ed; lia|].
  intros s _ _. rewrite g_ot_ed. discriminate.
Qed.

(* ====================================================================== (2) rows *)
(* the call of set_sim_join / the filters:
     gen_token_ordering_for_tables([ltable, rtable], [l_join_attr_index, r_join_attr_index],
                                   tokenizer, sim_measure_type)                            *)
Definition join_ordering (lattr rattr smt : pyval) (tokenize : pyval -> pyval)
           (lrows rrows : list pyval) : pyval :=
  gen_token_ordering_for_tables (PList [PList lrows; PList rrows]) (PList [lattr; rattr]) smt tokenize.

(* all tokens of the two tables = the `all` of Model/Joins.v for L = map (tk 0) lrows,
   R = map (tk 1) rrows *)
Definition join_all (tk : nat -> pyval -> list Z) (lrows rrows : list pyval) : list Z :=
  (List.concat (map (tk 0%nat) lrows) ++ List.concat (map (tk 1%nat) rrows))%list.

Definition tables_tokenized (lattr rattr : pyval) (tokenize : pyval -> pyval)
           (tk : nat -> pyval -> list Z) (lrows rrows : list pyval) : Prop :=
  tokenizes [lrows; rrows] (PList [lattr; rattr]) tokenize tk.

(* the join cells of the indexed table are not raised exceptions *)
Definition cells_ok (attr : pyval) (rows : list pyval) : Prop :=
  forall r, In r rows -> is_exc (py_getitem r attr) = false.

(* ... which follows from `tokenizes` for any tokenizer that propagates exceptions *)
Lemma cells_ok_strict lattr rattr tokenize tk lrows rrows :
  (forall e, is_exc e = true -> is_exc (tokenize e) = true) ->
  tables_tokenized lattr rattr tokenize tk lrows rrows -> cells_ok lattr lrows.
Proof.
  intros Hs Htk r Hr. destruct (Htk 0%nat lrows r eq_refl Hr) as [_ Ht].
  change (py_getitem (PList [lattr; rattr]) (PInt (Z.of_nat 0))) with lattr in Ht.
  destruct (is_exc (py_getitem r lattr)) eqn:E; [|reflexivity].
  apply Hs in E. rewrite Ht in E. discriminate E.
Qed.

Lemma tab_tokens_join tk lrows rrows : tab_tokens tk 0 [lrows; rrows] = join_all tk lrows rrows.
Proof. unfold join_all. cbn [tab_tokens]. now rewrite app_nil_r. Qed.

Lemma Forall2_map_in {A B} (R : A -> B -> Prop) (f : A -> B) : forall l : list A,
  (forall x, In x l -> R x (f x)) -> Forall2 R l (map f l).
Proof.
  induction l as [|x l IH]; intros H; cbn [map]; constructor.
  - apply H. left; reflexivity.
  - apply IH. intros y Hy. apply H. right; exact Hy.
Qed.

Lemma nth_map_lt {A B} (f : A -> B) (l : list A) (c : nat) (dA : A) (dB : B) :
  (c < List.length l)%nat -> nth c (map f l) dB = f (nth c l dA).
Proof.
  intros Hc. rewrite (nth_indep (map f l) dB (f dA)) by (rewrite map_length; exact Hc).
  apply map_nth.
Qed.

Section Tables.
  Variables (lattr rattr smt : pyval) (tokenize : pyval -> pyval) (tk : nat -> pyval -> list Z).
  Variables (lrows rrows : list pyval).
  Hypothesis Htk : tables_tokenized lattr rattr tokenize tk lrows rrows.

  Let ordering := join_ordering lattr rattr smt tokenize lrows rrows.
  Let all := join_all tk lrows rrows.

  Lemma left_tokens r : In r lrows -> tokenize (py_getitem r lattr) = pints (tk 0%nat r).
  Proof. intros Hr. destruct (Htk 0%nat lrows r eq_refl Hr) as [_ Ht]. exact Ht. Qed.
  Lemma right_tokens r : In r rrows -> tokenize (py_getitem r rattr) = pints (tk 1%nat r).
  Proof. intros Hr. destruct (Htk 1%nat rrows r eq_refl Hr) as [_ Ht]. exact Ht. Qed.

  Lemma left_in_all r w : In r lrows -> In w (tk 0%nat r) -> In w all.
  Proof.
    intros Hr Hw. unfold all, join_all. apply in_or_app. left.
    apply in_concat. exists (tk 0%nat r). split; [apply in_map; exact Hr | exact Hw].
  Qed.
  Lemma right_in_all r w : In r rrows -> In w (tk 1%nat r) -> In w all.
  Proof.
    intros Hr Hw. unfold all, join_all. apply in_or_app. right.
    apply in_concat. exists (tk 1%nat r). split; [apply in_map; exact Hr | exact Hw].
  Qed.
  Lemma left_order_len r : In r lrows -> len (order all (tk 0%nat r)) = len (tk 0%nat r).
  Proof. intros Hr. unfold len. f_equal. apply order_length. intros w. apply left_in_all. exact Hr. Qed.
  Lemma right_order_len r : In r rrows -> len (order all (tk 1%nat r)) = len (tk 1%nat r).
  Proof. intros Hr. unfold len. f_equal. apply order_length. intros w. apply right_in_all. exact Hr. Qed.

  (* ordering a token list with the GENERATED ordering of the two tables = the model's order *)
  Lemma order_with_join_ordering toks :
    order_using_token_ordering (pints toks) ordering = pints (order all toks).
  Proof.
    unfold ordering, join_ordering, all. rewrite <- tab_tokens_join.
    exact (order_using_gen_tables [lrows; rrows] (PList [lattr; rattr]) smt tokenize tk toks Htk).
  Qed.

  (* (2a) every row of the indexed (left) table satisfies row_ok for its ordered token list *)
  Theorem left_row_ok : cells_ok lattr lrows -> forall r, In r lrows ->
    row_ok lattr ordering tokenize r (order all (tk 0%nat r)).
  Proof.
    intros Hc r Hr. split; [apply Hc; exact Hr|].
    rewrite (left_tokens r Hr). apply order_with_join_ordering.
  Qed.
  Corollary left_rows_ok : cells_ok lattr lrows ->
    Forall2 (row_ok lattr ordering tokenize) lrows (map (fun r => order all (tk 0%nat r)) lrows).
  Proof. intros Hc. apply Forall2_map_in. apply left_row_ok. exact Hc. Qed.

  (* (2b) the probe: ordered tokens of a row of the right table *)
  Theorem right_probe_ordered r : In r rrows ->
    order_using_token_ordering (tokenize (py_getitem r rattr)) ordering = pints (order all (tk 1%nat r)).
  Proof. intros Hr. rewrite (right_tokens r Hr). apply order_with_join_ordering. Qed.

  (* rows for the size index (token counts) and the inverted index (raw tokens) *)
  Lemma left_rows_zok : cells_ok lattr lrows ->
    Forall2 (zrow_ok lattr tokenize) lrows (map (fun r => len (tk 0%nat r)) lrows).
  Proof.
    intros Hc. apply Forall2_map_in. intros r Hr. split; [apply Hc; exact Hr|].
    rewrite (left_tokens r Hr). apply py_len_pints.
  Qed.
  Lemma left_rows_iok : cells_ok lattr lrows ->
    Forall2 (irow_ok lattr tokenize) lrows (map (tk 0%nat) lrows).
  Proof.
    intros Hc. apply Forall2_map_in. intros r Hr. split; [apply Hc; exact Hr|].
    apply left_tokens. exact Hr.
  Qed.

  (* ==================================================================== (3) end to end *)
  Variables (p : fparams) (bound : Z).
  Hypothesis Hf : formulas_ok p bound.
  Hypothesis Hcells : cells_ok lattr lrows.
  Hypothesis Hlsize : forall r, In r lrows -> len (tk 0%nat r) < bound.

  Let xof (r : pyval) : list Z := order all (tk 0%nat r).
  Let yof (r : pyval) : list Z := order all (tk 1%nat r).

  Lemma len_nonneg l : 0 <= len l.
  Proof. unfold len. lia. Qed.

  Lemma left_pl x : In x (map xof lrows) -> exists kx, g_pl p (len x) = PInt kx.
  Proof.
    intros Hx. apply in_map_iff in Hx. destruct Hx as (r & <- & Hr).
    apply (formulas_ok_pl p bound); [exact Hf|]. unfold xof. rewrite (left_order_len r Hr).
    split; [apply len_nonneg | apply Hlsize; exact Hr].
  Qed.

  (* PositionIndex.build on the left table + PositionFilter.find_candidates on a right row:
     the returned dict (keys: distinct left row positions) stores for left row c exactly the value
     of the hand model, pos_cand (absent = 0) *)
  Theorem position_candidates_end_to_end_full : forall (ce ct : bool) (y : pyval),
    In y rrows -> len (tk 1%nat y) < bound ->
    exists index size_cache mn mx ret d,
      position_index_build (PList lrows) lattr (PStr (fm p)) (ft p) ordering (PBool ce) (PBool ct)
                           (PInt (fq p)) tokenize
        = PTuple [index; size_cache; PInt mn; PInt mx; ret] /\
      position_filter_find_candidates (PStr (fm p)) (ft p)
        (order_using_token_ordering (tokenize (py_getitem y rattr)) ordering)
        index size_cache (PInt mn) (PInt mx) (PInt (fq p)) = PDict (drepr PInt d) /\
      NoDup (map fst d) /\
      (forall c, In c (map fst d) -> 0 <= c < Z.of_nat (List.length lrows)) /\
      forall c, (c < List.length lrows)%nat ->
        pos_cand p (order all (tk 0%nat (nth c lrows PNone))) (order all (tk 1%nat y))
        = Some (dict_val (PDict (drepr PInt d)) (Z.of_nat c)).
  Proof.
    intros ce ct y Hy Hysize.
    destruct (Hf (len (yof y))) as (lb & ub & k & Hlb & Hub & Hpl & Hot).
    { unfold yof. rewrite (right_order_len y Hy). split; [apply len_nonneg | exact Hysize]. }
    destruct (position_find_candidates_refines p lattr ordering tokenize lrows (map xof lrows) ce ct
                (left_rows_ok Hcells) left_pl (yof y) lb ub k Hlb Hub Hpl Hot)
      as (index & sc & mn & mx & ret & d & Hb & Hc & Hnd & Hkeys & Hval).
    exists index, sc, mn, mx, ret, d. split; [exact Hb|]. split; [|split; [exact Hnd|split]].
    - rewrite (right_probe_ordered y Hy). exact Hc.
    - intros c Hc'. specialize (Hkeys c Hc'). unfold nrows in Hkeys. rewrite map_length in Hkeys. exact Hkeys.
    - intros c Hlt. rewrite map_length in Hval. specialize (Hval c Hlt).
      rewrite (nth_map_lt xof lrows c PNone []) in Hval by exact Hlt. exact Hval.
  Qed.

  (* the form used by the joins (`if overlap > 0`): positive value <-> the model's candidate test *)
  Corollary position_candidates_end_to_end : forall (ce ct : bool) (y : pyval),
    In y rrows -> len (tk 1%nat y) < bound ->
    exists index size_cache mn mx ret cands,
      position_index_build (PList lrows) lattr (PStr (fm p)) (ft p) ordering (PBool ce) (PBool ct)
                           (PInt (fq p)) tokenize
        = PTuple [index; size_cache; PInt mn; PInt mx; ret] /\
      position_filter_find_candidates (PStr (fm p)) (ft p)
        (order_using_token_ordering (tokenize (py_getitem y rattr)) ordering)
        index size_cache (PInt mn) (PInt mx) (PInt (fq p)) = cands /\
      forall c, (c < List.length lrows)%nat ->
        (0 < dict_val cands (Z.of_nat c) <->
         exists v, pos_cand p (order all (tk 0%nat (nth c lrows PNone))) (order all (tk 1%nat y)) = Some v
                   /\ 0 < v).
  Proof.
    intros ce ct y Hy Hysize.
    destruct (position_candidates_end_to_end_full ce ct y Hy Hysize)
      as (index & sc & mn & mx & ret & d & Hb & Hc & _ & _ & Hval).
    exists index, sc, mn, mx, ret, (PDict (drepr PInt d)). split; [exact Hb|]. split; [exact Hc|].
    intros c Hlt. rewrite (Hval c Hlt). split.
    - intros Hv. eexists. split; [reflexivity | exact Hv].
    - intros (v & Hv & Hpos). injection Hv as <-. exact Hpos.
  Qed.

  (* ... hence the per-pair step of Model/Joins.set_sim_join_core is decided by the dict value *)
  Corollary ssj_pair_end_to_end : forall (ce ct : bool) (y : pyval) (op : string),
    In y rrows -> len (tk 1%nat y) < bound ->
    exists index size_cache mn mx ret cands,
      position_index_build (PList lrows) lattr (PStr (fm p)) (ft p) ordering (PBool ce) (PBool ct)
                           (PInt (fq p)) tokenize
        = PTuple [index; size_cache; PInt mn; PInt mx; ret] /\
      position_filter_find_candidates (PStr (fm p)) (ft p)
        (order_using_token_ordering (tokenize (py_getitem y rattr)) ordering)
        index size_cache (PInt mn) (PInt mx) (PInt (fq p)) = cands /\
      forall c, (c < List.length lrows)%nat ->
        let x := order all (tk 0%nat (nth c lrows PNone)) in
        let Y := order all (tk 1%nat y) in
        ssj_pair p op x Y
        = if 0 <? dict_val cands (Z.of_nat c)
          then let s := PFloat (f_round_nd (sim_tok (fm p) x Y) 4) in
               if cmp_op op s (ft p) then Some [s] else Some []
          else Some [].
  Proof.
    intros ce ct y op Hy Hysize.
    destruct (position_candidates_end_to_end_full ce ct y Hy Hysize)
      as (index & sc & mn & mx & ret & d & Hb & Hc & _ & _ & Hval).
    exists index, sc, mn, mx, ret, (PDict (drepr PInt d)). split; [exact Hb|]. split; [exact Hc|].
    intros c Hlt x Y. unfold ssj_pair, x, Y. rewrite (Hval c Hlt). reflexivity.
  Qed.

  (* PrefixIndex.build + PrefixFilter.find_candidates: membership in the candidate set *)
  Theorem prefix_candidates_end_to_end : forall (ce : bool) (y : pyval),
    In y rrows -> len (tk 1%nat y) < bound ->
    exists index ret d,
      prefix_index_build (PList lrows) lattr (PStr (fm p)) (ft p) ordering (PBool ce) (PInt (fq p)) tokenize
        = PTuple [index; ret] /\
      prefix_filter_find_candidates (PStr (fm p)) (ft p)
        (order_using_token_ordering (tokenize (py_getitem y rattr)) ordering) index (PInt (fq p))
        = srepr d /\
      NoDup (map fst d) /\
      forall c, (c < List.length lrows)%nat ->
        prefix_cand p (order all (tk 0%nat (nth c lrows PNone))) (order all (tk 1%nat y))
        = Some (smem d (Z.of_nat c)).
  Proof.
    intros ce y Hy Hysize.
    destruct (formulas_ok_pl p bound (len (yof y)) Hf) as [k Hpl].
    { unfold yof. rewrite (right_order_len y Hy). split; [apply len_nonneg | exact Hysize]. }
    destruct (prefix_find_candidates_refines p lattr ordering tokenize lrows (map xof lrows) ce (yof y) k
                (left_rows_ok Hcells) left_pl Hpl)
      as (index & ret & d & Hb & Hc & Hnd & Hmem).
    exists index, ret, d. split; [exact Hb|]. split; [|split; [exact Hnd|]].
    - rewrite (right_probe_ordered y Hy). exact Hc.
    - intros c Hlt. rewrite map_length in Hmem. specialize (Hmem c Hlt).
      rewrite (nth_map_lt xof lrows c PNone []) in Hmem by exact Hlt. exact Hmem.
  Qed.

  (* SizeIndex.build + SizeFilter.find_candidates (probe size = number of tokens of the right
     cell; no ordering involved; ordering preserves the counts, see left_order_len) *)
  Theorem size_candidates_end_to_end : forall (ce : bool) (y : pyval),
    In y rrows -> len (tk 1%nat y) < bound ->
    exists index mn mx ret d,
      size_index_build (PList lrows) lattr (PBool ce) tokenize = PTuple [index; PInt mn; PInt mx; ret] /\
      size_filter_find_candidates (PStr (fm p)) (ft p) (py_len (tokenize (py_getitem y rattr)))
                                  index (PInt mn) (PInt mx) = srepr d /\
      forall c, (c < List.length lrows)%nat ->
        smem d (Z.of_nat c) = size_cand p (len (tk 0%nat (nth c lrows PNone))) (len (tk 1%nat y)) /\
        smem d (Z.of_nat c) = size_cand p (len (order all (tk 0%nat (nth c lrows PNone))))
                                          (len (order all (tk 1%nat y))).
  Proof.
    intros ce y Hy Hysize.
    destruct (formulas_ok_lb_ub p bound (len (tk 1%nat y)) Hf) as (lb & ub & Hlb & Hub).
    { split; [apply len_nonneg | exact Hysize]. }
    destruct (size_find_candidates_refines p lattr tokenize lrows (map (fun r => len (tk 0%nat r)) lrows)
                ce (len (tk 1%nat y)) lb ub (left_rows_zok Hcells))
      as (index & mn & mx & ret & d & Hb & Hc & Hmem); try assumption.
    { intros n Hn. apply in_map_iff in Hn. destruct Hn as (r & <- & _). apply len_nonneg. }
    exists index, mn, mx, ret, d. split; [exact Hb|]. split.
    - rewrite (right_tokens y Hy), py_len_pints. exact Hc.
    - intros c Hlt. rewrite map_length in Hmem. specialize (Hmem c Hlt).
      rewrite (nth_map_lt (fun r => len (tk 0%nat r)) lrows c PNone 0) in Hmem by exact Hlt.
      split; [exact Hmem|].
      rewrite (left_order_len _ (nth_In lrows PNone Hlt)), (right_order_len y Hy). exact Hmem.
  Qed.
End Tables.

(* InvertedIndex.build + OverlapFilter.find_candidates: no formulas, no ordering *)
Theorem overlap_candidates_end_to_end :
  forall lattr rattr tokenize tk lrows rrows (flag ce : bool) (y : pyval),
    tables_tokenized lattr rattr tokenize tk lrows rrows -> cells_ok lattr lrows -> In y rrows ->
    exists index size_cache ret d,
      inverted_index_build (PList lrows) lattr (PBool flag) (PBool ce) tokenize
        = PTuple [index; size_cache; ret] /\
      overlap_filter_find_candidates (tokenize (py_getitem y rattr)) index = PDict (drepr PInt d) /\
      forall c, (c < List.length lrows)%nat ->
        dict_val (PDict (drepr PInt d)) (Z.of_nat c)
        = overlap_count (tk 0%nat (nth c lrows PNone)) (tk 1%nat y).
Proof.
  intros lattr rattr tokenize tk lrows rrows flag ce y Htk Hcells Hy.
  destruct (overlap_find_candidates_refines lattr tokenize lrows (map (tk 0%nat) lrows) flag ce (tk 1%nat y)
              (left_rows_iok lattr rattr tokenize tk lrows rrows Htk Hcells))
    as (index & sc & ret & d & Hb & Hc & Hval).
  exists index, sc, ret, d. split; [exact Hb|]. split.
  - rewrite (right_tokens lattr rattr tokenize tk lrows rrows Htk y Hy). exact Hc.
  - intros c Hlt. rewrite dict_val_drepr. rewrite map_length in Hval. rewrite (Hval c Hlt).
    rewrite (nth_map_lt (tk 0%nat) lrows c PNone []) by exact Hlt. reflexivity.
Qed.

(* the `all` / ordered rows of Model/Joins.v (set_sim_join_core, filter_tables_core) for
   L = map (tk 0) lrows, R = map (tk 1) rrows are literally the ones used above *)
Lemma join_all_model tk lrows rrows :
  join_all tk lrows rrows
  = (List.concat (map (tk 0%nat) lrows) ++ List.concat (map (tk 1%nat) rrows))%list.
Proof. reflexivity. Qed.
Lemma model_left_row tk lrows rrows c : (c < List.length lrows)%nat ->
  nth c (map (order (join_all tk lrows rrows)) (map (tk 0%nat) lrows)) []
  = order (join_all tk lrows rrows) (tk 0%nat (nth c lrows PNone)).
Proof.
  intros Hc. rewrite map_map. apply (nth_map_lt (fun r => order _ (tk 0%nat r))). exact Hc.
Qed.
Lemma model_right_row tk lrows rrows j : (j < List.length rrows)%nat ->
  order (join_all tk lrows rrows) (nth j (map (tk 1%nat) rrows) [])
  = order (join_all tk lrows rrows) (tk 1%nat (nth j rrows PNone)).
Proof. intros Hj. f_equal. apply nth_map_lt. exact Hj. Qed.

(* ====================================================================== instances *)
Section Instances.
  Variables (lattr rattr smt : pyval) (tokenize : pyval -> pyval) (tk : nat -> pyval -> list Z).
  Variables (lrows rrows : list pyval).
  Hypothesis Htk : tables_tokenized lattr rattr tokenize tk lrows rrows.
  Hypothesis Hcells : cells_ok lattr lrows.

  (* OVERLAP, integer threshold: no size bound at all *)
  Corollary position_candidates_overlap : forall T q (ce ct : bool) (y : pyval), In y rrows ->
    let p := ovp T q in
    let ordering := join_ordering lattr rattr smt tokenize lrows rrows in
    let all := join_all tk lrows rrows in
    exists index size_cache mn mx ret cands,
      position_index_build (PList lrows) lattr (PStr (fm p)) (ft p) ordering (PBool ce) (PBool ct)
                           (PInt (fq p)) tokenize
        = PTuple [index; size_cache; PInt mn; PInt mx; ret] /\
      position_filter_find_candidates (PStr (fm p)) (ft p)
        (order_using_token_ordering (tokenize (py_getitem y rattr)) ordering)
        index size_cache (PInt mn) (PInt mx) (PInt (fq p)) = cands /\
      forall c, (c < List.length lrows)%nat ->
        (0 < dict_val cands (Z.of_nat c) <->
         exists v, pos_cand p (order all (tk 0%nat (nth c lrows PNone))) (order all (tk 1%nat y)) = Some v
                   /\ 0 < v).
  Proof.
    intros T q ce ct y Hy p ordering all.
    set (B := 1 + len (tk 1%nat y) + fold_right Z.max 0 (map (fun r => len (tk 0%nat r)) lrows)).
    apply (position_candidates_end_to_end lattr rattr smt tokenize tk lrows rrows Htk p B).
    - apply formulas_ok_overlap.
    - exact Hcells.
    - intros r Hr. unfold B. pose proof (len_nonneg (tk 1%nat y)).
      assert (len (tk 0%nat r) <= fold_right Z.max 0 (map (fun r => len (tk 0%nat r)) lrows)); [|lia].
      clear -Hr. induction lrows as [|r0 l IH]; [destruct Hr|]. cbn [map fold_right].
      destruct Hr as [->|Hr]; [lia | specialize (IH Hr); lia].
    - exact Hy.
    - unfold B. assert (0 <= fold_right Z.max 0 (map (fun r => len (tk 0%nat r)) lrows)); [|lia].
      clear. induction lrows as [|r0 l IH]; cbn [map fold_right]; lia.
  Qed.

  (* EDIT_DISTANCE: the join uses the prefix filter on q-gram bags *)
  Corollary prefix_candidates_ed : forall q tau (ce : bool) (y : pyval), 0 <= tau -> 1 <= q -> In y rrows ->
    let p := edp q tau in
    let ordering := join_ordering lattr rattr smt tokenize lrows rrows in
    let all := join_all tk lrows rrows in
    exists index ret d,
      prefix_index_build (PList lrows) lattr (PStr (fm p)) (ft p) ordering (PBool ce) (PInt (fq p)) tokenize
        = PTuple [index; ret] /\
      prefix_filter_find_candidates (PStr (fm p)) (ft p)
        (order_using_token_ordering (tokenize (py_getitem y rattr)) ordering) index (PInt (fq p))
        = srepr d /\
      NoDup (map fst d) /\
      forall c, (c < List.length lrows)%nat ->
        prefix_cand p (order all (tk 0%nat (nth c lrows PNone))) (order all (tk 1%nat y))
        = Some (smem d (Z.of_nat c)).
  Proof.
    intros q tau ce y Ht Hq Hy p ordering all.
    set (B := 1 + len (tk 1%nat y) + fold_right Z.max 0 (map (fun r => len (tk 0%nat r)) lrows)).
    apply (prefix_candidates_end_to_end lattr rattr smt tokenize tk lrows rrows Htk p B).
    - apply formulas_ok_ed; assumption.
    - exact Hcells.
    - intros r Hr. unfold B. pose proof (len_nonneg (tk 1%nat y)).
      assert (len (tk 0%nat r) <= fold_right Z.max 0 (map (fun r => len (tk 0%nat r)) lrows)); [|lia].
      clear -Hr. induction lrows as [|r0 l IH]; [destruct Hr|]. cbn [map fold_right].
      destruct Hr as [->|Hr]; [lia | specialize (IH Hr); lia].
    - exact Hy.
    - unfold B. assert (0 <= fold_right Z.max 0 (map (fun r => len (tk 0%nat r)) lrows)); [|lia].
      clear. induction lrows as [|r0 l IH]; cbn [map fold_right]; lia.
  Qed.
End Instances.

(* ====================================================================== non-vacuity *)
(* rows are 1-tuples (cell,); the tokenizer maps the int cell z to the tokens [z; z+1] *)
Definition gx_tok (v : pyval) : pyval :=
  match v with PInt z => PList [PInt z; PInt (z + 1)] | _ => PExc "TypeError" end.
Definition gx_tok_of (v : pyval) : list Z := match v with PInt z => [z; z + 1] | _ => [] end.
Definition gx_tk (i : nat) (row : pyval) : list Z := gx_tok_of (py_getitem row (PInt 0)).
Definition gx_l : list pyval := [PTuple [PInt 1]; PTuple [PInt 5]; PTuple [PInt 2]].
Definition gx_r : list pyval := [PTuple [PInt 1]; PTuple [PInt 9]].

Lemma gx_tokenized : tables_tokenized (PInt 0) (PInt 0) gx_tok gx_tk gx_l gx_r.
Proof.
  intros i t row Hn Hr.
  destruct i as [|[|i]]; cbn in Hn; [| |destruct i; discriminate];
    injection Hn as <-; cbn in Hr;
    repeat (destruct Hr as [<-|Hr]; [split; reflexivity|]); destruct Hr.
Qed.
Lemma gx_cells : cells_ok (PInt 0) gx_l.
Proof. intros r Hr. cbn in Hr. repeat (destruct Hr as [<-|Hr]; [reflexivity|]). destruct Hr. Qed.

(* the hypotheses are satisfiable and the conclusion is not trivially "no candidates":
   with OVERLAP, T = 1, probing with right row 0 (tokens {1,2}) the generated code stores a positive
   value for left rows 0 ({1,2}) and 2 ({2,3}) and nothing for row 1 ({5,6}) *)
Example gx_position_overlap :
  let p := ovp 1 2 in
  let ordering := join_ordering (PInt 0) (PInt 0) (PStr "OVERLAP") gx_tok gx_l gx_r in
  let all := join_all gx_tk gx_l gx_r in
  exists index size_cache mn mx ret cands,
    position_index_build (PList gx_l) (PInt 0) (PStr (fm p)) (ft p) ordering (PBool true) (PBool true)
                         (PInt (fq p)) gx_tok
      = PTuple [index; size_cache; PInt mn; PInt mx; ret] /\
    position_filter_find_candidates (PStr (fm p)) (ft p)
      (order_using_token_ordering (gx_tok (py_getitem (PTuple [PInt 1]) (PInt 0))) ordering)
      index size_cache (PInt mn) (PInt mx) (PInt (fq p)) = cands /\
    forall c, (c < 3)%nat ->
      (0 < dict_val cands (Z.of_nat c) <->
       exists v, pos_cand p (order all (gx_tk 0%nat (nth c gx_l PNone))) (order all (gx_tk 1%nat (PTuple [PInt 1])))
                 = Some v /\ 0 < v).
Proof.
  exact (position_candidates_overlap (PInt 0) (PInt 0) (PStr "OVERLAP") gx_tok gx_tk gx_l gx_r
           gx_tokenized gx_cells 1 2 true true (PTuple [PInt 1]) (or_introl eq_refl)).
Qed.

Example gx_position_overlap_values :
  let p := ovp 1 2 in
  let ordering := join_ordering (PInt 0) (PInt 0) (PStr "OVERLAP") gx_tok gx_l gx_r in
  let all := join_all gx_tk gx_l gx_r in
  let y := order all (gx_tk 1%nat (PTuple [PInt 1])) in
  match position_index_build (PList gx_l) (PInt 0) (PStr (fm p)) (ft p) ordering (PBool true) (PBool true)
                             (PInt (fq p)) gx_tok with
  | PTuple [index; size_cache; mn; mx; _] =>
      let cands := position_filter_find_candidates (PStr (fm p)) (ft p)
                     (order_using_token_ordering (gx_tok (py_getitem (PTuple [PInt 1]) (PInt 0))) ordering)
                     index size_cache mn mx (PInt (fq p)) in
      map (dict_val cands) [0; 1; 2]
  | _ => []
  end = [2; 0; 1] /\
  map (fun c => pos_cand p (order all (gx_tk 0%nat (nth c gx_l PNone))) y) [0; 1; 2]%nat
  = [Some 2; Some 0; Some 1].
Proof. split; vm_compute; reflexivity. Qed.

Example gx_prefix_ed_values :
  let p := edp 2 1 in
  let ordering := join_ordering (PInt 0) (PInt 0) (PStr "EDIT_DISTANCE") gx_tok gx_l gx_r in
  let all := join_all gx_tk gx_l gx_r in
  let y := order all (gx_tk 1%nat (PTuple [PInt 1])) in
  match prefix_index_build (PList gx_l) (PInt 0) (PStr (fm p)) (ft p) ordering (PBool true)
                           (PInt (fq p)) gx_tok with
  | PTuple [index; _] =>
      prefix_filter_find_candidates (PStr (fm p)) (ft p)
        (order_using_token_ordering (gx_tok (py_getitem (PTuple [PInt 1]) (PInt 0))) ordering)
        index (PInt (fq p))
  | _ => PNone
  end = srepr [(0, tt); (2, tt)] /\
  map (fun c => prefix_cand p (order all (gx_tk 0%nat (nth c gx_l PNone))) y) [0; 1; 2]%nat
  = [Some true; Some false; Some true].
Proof. split; vm_compute; reflexivity. Qed.

Print Assumptions formulas_ok_overlap.
Print Assumptions formulas_ok_ed.
Print Assumptions left_rows_ok.
Print Assumptions right_probe_ordered.
Print Assumptions position_candidates_end_to_end_full.
Print Assumptions position_candidates_end_to_end.
Print Assumptions ssj_pair_end_to_end.
Print Assumptions prefix_candidates_end_to_end.
Print Assumptions size_candidates_end_to_end.
Print Assumptions overlap_candidates_end_to_end.
Print Assumptions position_candidates_overlap.
Print Assumptions prefix_candidates_ed.
