(* Structural facts about Model/Matcher.v (properties C05, C06, C08, C10): the key->row
   dictionary, the row-wise loop of apply_matcher as "filter then map", its independence of
   n_jobs (given that the chunks of split_table concatenate to the table), and the same for
   Filter.filter_candset.  Pure list reasoning, axiom-free.                                 *)
From Coq Require Import ZArith Bool List String Lia.
From SSJ Require Import F64 PyNum HelperGen Filters Joins Api Matcher.
Import ListNotations.
Open Scope string_scope.
Open Scope Z_scope.

(* ------------------------------------------------------------------ the dictionary *)
Lemma lookup_None k T : lookup k T = None <-> ~ In k (map fst T).
Proof.
  induction T as [|[k' v] T IH]; simpl; [tauto|].
  destruct (lookup k T) as [r|] eqn:E.
  - split; [discriminate|]. intros H. exfalso.
    assert (Hn : ~ In k (map fst T)) by tauto.
    apply IH in Hn. discriminate.
  - destruct (Z.eqb_spec k k') as [->|Hne].
    + split; [discriminate|]. intros H. exfalso. apply H. left; reflexivity.
    + split; [|reflexivity]. intros _ [H|H]; [congruence|]. apply (proj1 IH eq_refl H).
Qed.

Lemma lookup_In k T v : lookup k T = Some v -> In (k, v) T.
Proof.
  induction T as [|[k' v'] T IH]; simpl; [discriminate|].
  destruct (lookup k T) as [r|] eqn:E.
  - intros H. right. apply IH. exact H.
  - destruct (Z.eqb_spec k k') as [->|Hne]; [|discriminate].
    intros H. injection H as ->. left; reflexivity.
Qed.

Theorem lookup_spec : forall (T : list mrow) k v,
  NoDup (map fst T) -> (lookup k T = Some v <-> In (k, v) T).
Proof.
  intros T k v Hnd. split; [apply lookup_In|].
  induction T as [|[k' v'] T IH]; simpl; [tauto|].
  inversion Hnd as [|? ? Hni Hnd']; subst.
  intros [H|H].
  - injection H as -> ->.
    assert (E : lookup k T = None) by (apply lookup_None; exact Hni).
    rewrite E, Z.eqb_refl. reflexivity.
  - rewrite (IH Hnd' H). reflexivity.
Qed.

(* the last row with the key wins, whether or not the keys are distinct *)
Lemma lookup_last k T1 v T2 :
  ~ In k (map fst T2) -> lookup k (T1 ++ (k, v) :: T2) = Some v.
Proof.
  intros Hni. induction T1 as [|[k' v'] T1 IH]; simpl.
  - apply lookup_None in Hni. rewrite Hni, Z.eqb_refl. reflexivity.
  - rewrite IH. reflexivity.
Qed.

Lemma lookup_defined k T : In k (map fst T) -> exists v, lookup k T = Some v.
Proof.
  intros H. destruct (lookup k T) as [v|] eqn:E; [exists v; reflexivity|].
  apply lookup_None in E. contradiction.
Qed.

Example lookup_ex : lookup 2 [(1, Some 10); (2, None); (3, Some 30)] = Some None /\
                    lookup 2 [(2, Some 10); (2, Some 20)] = Some (Some 20) /\
                    lookup 5 [(1, Some 10)] = None.
Proof. repeat split. Qed.

(* ------------------------------------------------------------------ flat_map helpers *)
Lemma flat_map_concat_chunks {A B : Type} (f : list A -> list B) (chs : list (nat * list A)) :
  (forall a b, f (a ++ b)%list = (f a ++ f b)%list) -> f [] = [] ->
  flat_map (fun ch => f (snd ch)) chs = f (List.concat (map snd chs)).
Proof.
  intros Happ Hnil. induction chs as [|ch chs IH]; simpl; [symmetry; exact Hnil|].
  rewrite Happ, IH. reflexivity.
Qed.

Lemma flat_map_opt_filter {A B : Type} (g : A -> option B) (keep : A -> bool) (out : A -> B) l :
  (forall a, In a l -> g a = if keep a then Some (out a) else None) ->
  flat_map (fun a => match g a with Some r => [r] | None => [] end) l = map out (filter keep l).
Proof.
  induction l as [|a l IH]; intros H; simpl; [reflexivity|].
  rewrite (H a (or_introl eq_refl)), IH by (intros b Hb; apply H; right; exact Hb).
  destruct (keep a); reflexivity.
Qed.

(* ------------------------------------------------------------------ apply_matcher *)
Section MatcherFacts.
  Variable sim : Z -> Z -> pyval.
  Variable t : pyval.
  Variable op : string.
  Variable allow_missing with_score : bool.
  Variables L R : list mrow.

  Notation mrow_of := (match_row sim t op allow_missing with_score L R).
  Notation msplit := (matcher_split sim t op allow_missing with_score L R).
  Notation mmodel := (apply_matcher_model sim t op allow_missing with_score L R).

  (* is the candidate row kept?  (a row with an undefined key is "kept" as the KeyError row) *)
  Definition keep (c : crow) : bool :=
    let '(_, lk, rk) := c in
    match lookup lk L, lookup rk R with
    | Some (Some a), Some (Some b) => cmp_op op (sim a b) t
    | Some _, Some _ => allow_missing
    | _, _ => true
    end.

  (* the output row of a kept candidate *)
  Definition out (c : crow) : pyval * Z * Z * pyval :=
    let '(id, lk, rk) := c in
    match lookup lk L, lookup rk R with
    | Some (Some a), Some (Some b) => (id, lk, rk, if with_score then sim a b else PNone)
    | Some _, Some _ => (id, lk, rk, PNone)
    | _, _ => (PExc "KeyError", lk, rk, PNone)
    end.

  Lemma match_row_keep c : mrow_of c = if keep c then Some (out c) else None.
  Proof.
    destruct c as [[id lk] rk]. unfold match_row, keep, out.
    destruct (lookup lk L) as [[a|]|]; destruct (lookup rk R) as [[b|]|]; try reflexivity.
  Qed.

  Theorem matcher_split_app : forall a b, msplit (a ++ b) = (msplit a ++ msplit b)%list.
  Proof. intros a b. unfold matcher_split. apply flat_map_app. Qed.

  (* C05/C06: the result is the candidate set filtered, in the original order, each kept row
     carrying its own _id and keys *)
  Theorem matcher_rows : forall cand, msplit cand = map out (filter keep cand).
  Proof.
    intros cand. unfold matcher_split. apply flat_map_opt_filter.
    intros a _. apply match_row_keep.
  Qed.

  (* the defined-keys (no KeyError) case, row by row *)
  Definition keys_ok (c : crow) : Prop :=
    In (snd (fst c)) (map fst L) /\ In (snd c) (map fst R).

  Theorem keep_out_present : forall id lk rk a b,
    lookup lk L = Some (Some a) -> lookup rk R = Some (Some b) ->
    keep (id, lk, rk) = cmp_op op (sim a b) t /\
    out (id, lk, rk) = (id, lk, rk, if with_score then sim a b else PNone).
  Proof. intros id lk rk a b Hl Hr. unfold keep, out. rewrite Hl, Hr. split; reflexivity. Qed.

  Theorem keep_out_missing : forall id lk rk lv rv,
    lookup lk L = Some lv -> lookup rk R = Some rv -> lv = None \/ rv = None ->
    keep (id, lk, rk) = allow_missing /\ out (id, lk, rk) = (id, lk, rk, PNone).
  Proof.
    intros id lk rk lv rv Hl Hr Hm. unfold keep, out. rewrite Hl, Hr.
    destruct lv as [a|]; destruct rv as [b|]; try (split; reflexivity).
    destruct Hm; discriminate.
  Qed.

  Theorem out_keys_ok : forall c, keys_ok c ->
    fst (fst (fst (out c))) = fst (fst c) /\     (* _id *)
    snd (fst (fst (out c))) = snd (fst c) /\     (* left key *)
    snd (fst (out c)) = snd c.                   (* right key *)
  Proof.
    intros [[id lk] rk] [Hl Hr]. simpl in Hl, Hr.
    destruct (lookup_defined _ _ Hl) as [lv El]. destruct (lookup_defined _ _ Hr) as [rv Er].
    unfold out. rewrite El, Er.
    destruct lv as [a|]; destruct rv as [b|]; simpl; repeat split.
  Qed.

  (* membership form: which rows are in the result *)
  Theorem matcher_In : forall cand r,
    In r (msplit cand) <-> exists c, In c cand /\ keep c = true /\ r = out c.
  Proof.
    intros cand r. rewrite matcher_rows, in_map_iff. split.
    - intros [c [E Hc]]. apply filter_In in Hc. exists c. intuition.
    - intros [c [Hc [Hk E]]]. exists c. split; [symmetry; exact E|]. apply filter_In. tauto.
  Qed.

  (* the order of the candidate set is preserved: the _id column of the result is the _id
     column of the kept candidates when no KeyError occurs *)
  Theorem matcher_ids : forall cand, (forall c, In c cand -> keys_ok c) ->
    map (fun r => fst (fst (fst r))) (msplit cand) = map (fun c => fst (fst c)) (filter keep cand).
  Proof.
    intros cand Hok. rewrite matcher_rows, map_map. apply map_ext_in.
    intros c Hc. apply filter_In in Hc. destruct Hc as [Hc _].
    apply (out_keys_ok c (Hok c Hc)).
  Qed.

  Section Chunks.
    Hypothesis Hpart : forall (A : Type) njobs cpus (Rp : list A),
      exists chs, chunks_of njobs cpus Rp = Some chs /\ List.concat (map snd chs) = Rp.

    (* C10: n_jobs independence, order preserved *)
    Theorem apply_matcher_njobs : forall njobs cpus cand,
      mmodel njobs cpus cand = Some (msplit cand).
    Proof.
      intros njobs cpus cand. unfold apply_matcher_model.
      destruct cand as [|c0 cand']; [reflexivity|].
      destruct (Hpart crow njobs cpus (c0 :: cand')) as [chs [E Hc]]. rewrite E. f_equal.
      rewrite (flat_map_concat_chunks msplit chs matcher_split_app eq_refl), Hc. reflexivity.
    Qed.

    Corollary apply_matcher_njobs_indep : forall n1 c1 n2 c2 cand,
      mmodel n1 c1 cand = mmodel n2 c2 cand.
    Proof. intros. rewrite !apply_matcher_njobs. reflexivity. Qed.
  End Chunks.
End MatcherFacts.

(* the six operators: what `cmp_op` (hence `keep` on present values) computes *)
Theorem cmp_op_six : forall a b,
  cmp_op ">=" a b = py_truth (py_ge a b) /\ cmp_op ">" a b = py_truth (py_gt a b) /\
  cmp_op "<=" a b = py_truth (py_le a b) /\ cmp_op "<" a b = py_truth (py_lt a b) /\
  cmp_op "=" a b = py_truth (py_eq a b) /\ cmp_op "!=" a b = py_truth (py_ne a b).
Proof. intros a b. repeat split. Qed.

Example matcher_ex :
  let L := [(1, Some 10); (2, None); (3, Some 30)] in
  let R := [(7, Some 10); (8, Some 30)] in
  let sim := fun a b => PInt (a + b) in
  let cand := [(PInt 0, 1, 7); (PInt 1, 2, 7); (PInt 2, 3, 8); (PInt 3, 1, 8)] in
  matcher_split sim (PInt 40) ">=" true true L R cand
  = [(PInt 1, 2, 7, PNone); (PInt 2, 3, 8, PInt 60); (PInt 3, 1, 8, PInt 40)] /\
  matcher_split sim (PInt 40) ">=" false false L R cand
  = [(PInt 2, 3, 8, PNone); (PInt 3, 1, 8, PNone)] /\
  matcher_split sim (PInt 40) ">=" true true L R cand
  = map (out sim true L R) (filter (keep sim (PInt 40) ">=" true L R) cand).
Proof. vm_compute. repeat split. Qed.

(* ------------------------------------------------------------------ filter_candset *)
Section CandsetFacts.
  Variable dropped : Z -> Z -> bool.

  Theorem candset_split_app : forall a b,
    candset_split dropped (a ++ b) = (candset_split dropped a ++ candset_split dropped b)%list.
  Proof. intros a b. unfold candset_split. apply flat_map_app. Qed.

  (* the positions of the rows whose pair is not dropped, in order *)
  Theorem candset_rows : forall cand,
    candset_split dropped cand =
    map (fun c : nat * Z * Z => fst (fst c))
        (filter (fun c : nat * Z * Z => negb (dropped (snd (fst c)) (snd c))) cand).
  Proof.
    induction cand as [|[[i lk] rk] cand IH]; [reflexivity|].
    unfold candset_split in *. cbn [flat_map filter fst snd]. rewrite IH.
    destruct (dropped lk rk); reflexivity.
  Qed.

  Theorem candset_In : forall cand i,
    In i (candset_split dropped cand) <-> exists lk rk, In (i, lk, rk) cand /\ dropped lk rk = false.
  Proof.
    intros cand i. rewrite candset_rows, in_map_iff. split.
    - intros [[[i' lk] rk] [E Hc]]. simpl in E. subst i'. apply filter_In in Hc. simpl in Hc.
      exists lk, rk. destruct Hc as [Hc Hd]. apply negb_true_iff in Hd. tauto.
    - intros [lk [rk [Hc Hd]]]. exists (i, lk, rk). split; [reflexivity|].
      apply filter_In. simpl. rewrite Hd. tauto.
  Qed.

  Section Chunks.
    Hypothesis Hpart : forall (A : Type) njobs cpus (Rp : list A),
      exists chs, chunks_of njobs cpus Rp = Some chs /\ List.concat (map snd chs) = Rp.

    Theorem filter_candset_njobs : forall njobs cpus cand,
      filter_candset_model dropped njobs cpus cand = Some (candset_split dropped cand).
    Proof.
      intros njobs cpus cand. unfold filter_candset_model.
      destruct cand as [|c0 cand']; [reflexivity|].
      destruct (Hpart _ njobs cpus (c0 :: cand')) as [chs [E Hc]]. rewrite E. f_equal.
      rewrite (flat_map_concat_chunks (candset_split dropped) chs candset_split_app eq_refl), Hc.
      reflexivity.
    Qed.
  End Chunks.
End CandsetFacts.

Example candset_ex :
  candset_split (fun a b => a <? b) [(0%nat, 1, 2); (1%nat, 5, 2); (2%nat, 3, 3); (3%nat, 0, 9)]
  = [1%nat; 2%nat] /\
  filter_candset_model (fun a b => a <? b) 1 4 [(0%nat, 1, 2); (1%nat, 5, 2); (2%nat, 3, 3)]
  = Some [1%nat; 2%nat] /\
  apply_matcher_model (fun a b => PInt (a + b)) (PInt 0) ">" false true
    [(1, Some 1)] [(2, Some 2)] 1 4 [(PInt 0, 1, 2)] = Some [(PInt 0, 1, 2, PInt 3)].
Proof. vm_compute. repeat split. Qed.

Print Assumptions lookup_spec.
Print Assumptions matcher_rows.
Print Assumptions matcher_In.
Print Assumptions matcher_ids.
Print Assumptions keep_out_present.
Print Assumptions keep_out_missing.
Print Assumptions apply_matcher_njobs.
Print Assumptions cmp_op_six.
Print Assumptions candset_rows.
Print Assumptions candset_In.
Print Assumptions filter_candset_njobs.
