(* Closing statement for the pair-level path: for every filter except SuffixFilter, the GENERATED
   filter_pair (Gen/FilterPairGen.v) on the Python values of a case returns `PBool b` where b is
   the verdict of Spec/FilterSpec.model_filter_pair (the model every filter_pair property C04 /
   C06 / C08 / C09 / C14 is stated on).  Instances for OVERLAP and EDIT_DISTANCE (no arithmetic
   hypotheses left) and non-vacuity examples.  Lists / Z only: axiom-free
   (JACCARD / COSINE / DICE instances: FilterPairRefineArith.v).                          *)
From Coq Require Import ZArith Bool List String Lia.
From SSJ Require Import F64 PyNum FilterUtilsGen HelperGen TokenOrderingGen FilterPairGen TokenOrdering Filters
     Measures Joins Api JoinSpec FilterSpec
     PyFacts IndexPyFacts IndexProbeFacts OrderingFacts OrderingGenFacts OverlapMeasure EditArith IndexGlue
     FilterPairRefineBase FilterPairRefine FilterPairRefinePos.
Import ListNotations.
Open Scope Z_scope.

(* the Python value `pv` handed to filter_pair stands for the case value v:
   None (missing): None / NaN;  Some (code points, tokens): a string, empty iff there are no code
   points, which the tokenizer maps to the tokens *)
Definition enc_ok (tokenize : pyval -> pyval) (v : fval) (pv : pyval) : Prop :=
  match v with
  | None => scalar pv /\ missing pv = true
  | Some (cs, tl) => exists s, pv = PStr s /\ String.eqb s "" = (len cs =? 0) /\ tokenize pv = pints tl
  end.

(* the generated function for the case's filter, applied to the case's parameters *)
Definition gen_filter_pair (c : fpcase) (tokenize : pyval -> pyval) (lv rv : pyval) : pyval :=
  let p := fp_p c in
  let ae := PBool (fp_allow_empty c) in
  let am := PBool (fp_allow_missing c) in
  match fp_which c with
  | FSize => size_filter_pair_gen (PStr (fm p)) (ft p) ae am lv rv tokenize
  | FPrefix => prefix_filter_pair_gen (PStr (fm p)) (ft p) ae am lv rv (PInt (fq p)) tokenize
  | FPosition => position_filter_pair_gen (PStr (fm p)) (ft p) ae am lv rv (PInt (fq p)) tokenize
  | FOverlap => overlap_filter_pair_gen (ft p) (PStr (fp_op c)) am lv rv tokenize
  | FSuffix => PExc "NotTranslated"
  end.

(* what is needed from the parameters (only when both sides are present) *)
Definition fp_side (c : fpcase) (bound : Z) : Prop :=
  match fp_l c, fp_r c with
  | Some (_, lt), Some (_, rt) =>
      match fp_which c with
      | FSize => formulas_ok (fp_p c) bound /\ len lt < bound
      | FPrefix => formulas_ok (fp_p c) bound /\ len lt < bound /\ len rt < bound
      | FPosition => formulas_ok (fp_p c) bound /\ len lt < bound /\ len rt < bound /\
                     num_of (g_ot (fp_p c) (len lt) (len rt)) <> None
      | FOverlap => comp_op_map (fp_op c) <> None /\ num_of (ft (fp_p c)) <> None
      | FSuffix => False
      end
  | _, _ => fp_which c <> FSuffix
  end.

Theorem filter_pair_gen_refines_model : forall c bound tokenize lv rv,
  enc_ok tokenize (fp_l c) lv -> enc_ok tokenize (fp_r c) rv -> fp_side c bound ->
  exists b, model_filter_pair c = Some b /\ gen_filter_pair c tokenize lv rv = PBool b.
Proof.
  intros c bound tokenize lv rv Hl Hr Hside.
  unfold model_filter_pair, gen_filter_pair, fp_side in *.
  destruct (fp_l c) as [[cl tl]|] eqn:El.
  - destruct Hl as (sl & -> & Hel & Htl).
    destruct (fp_r c) as [[cr tr]|] eqn:Er.
    + destruct Hr as (sr & -> & Her & Htr).
      destruct (fp_which c).
      * destruct Hside as (Hf & Hb). eexists. split; [reflexivity|].
        apply (size_filter_pair_gen_refines tokenize (PStr sl) (PStr sr) tl tr I I eq_refl eq_refl Htl Htr
                 (fp_p c) bound); assumption.
      * destruct Hside as (Hf & Hb1 & Hb2).
        apply (prefix_filter_pair_gen_refines tokenize (PStr sl) (PStr sr) tl tr I I eq_refl eq_refl Htl Htr
                 (fp_p c) bound); assumption.
      * destruct Hside as (Hf & Hb1 & Hb2 & Hot).
        apply (position_filter_pair_gen_refines tokenize (PStr sl) (PStr sr) tl tr I I eq_refl eq_refl Htl Htr
                 (fp_p c) bound); assumption.
      * destruct Hside.
      * destruct Hside as (Hop & Hsz). eexists. split; [reflexivity|].
        rewrite <- Hel, <- Her. apply overlap_filter_pair_gen_refines; assumption.
    + destruct Hr as (Hsr & Hmr). eexists. split; [reflexivity|].
      assert (Hm : missing (PStr sl) || missing rv = true) by (rewrite Hmr; apply orb_true_r).
      destruct (fp_which c).
      * apply size_filter_pair_gen_missing; [exact I | exact Hsr | exact Hm].
      * apply prefix_filter_pair_gen_missing; [exact I | exact Hsr | exact Hm].
      * apply position_filter_pair_gen_missing; [exact I | exact Hsr | exact Hm].
      * contradiction Hside; reflexivity.
      * apply overlap_filter_pair_gen_missing; [exact I | exact Hsr | exact Hm].
  - destruct Hl as (Hsl & Hml).
    assert (Hsr : scalar rv).
    { destruct (fp_r c) as [[cr tr]|]; [destruct Hr as (sr & -> & _); exact I | exact (proj1 Hr)]. }
    assert (Hm : missing lv || missing rv = true) by (rewrite Hml; reflexivity).
    eexists. split; [reflexivity|].
    assert (Hns : fp_which c <> FSuffix).
    { destruct (fp_r c) as [[cr tr]|]; exact Hside. }
    destruct (fp_which c).
    + apply size_filter_pair_gen_missing; assumption.
    + apply prefix_filter_pair_gen_missing; assumption.
    + apply position_filter_pair_gen_missing; assumption.
    + contradiction Hns; reflexivity.
    + apply overlap_filter_pair_gen_missing; assumption.
Qed.

(* hence every executable filter_pair spec of Spec/FilterSpec.v that holds of the model's verdict
   holds of the verdict the generated code returns *)
Corollary filter_pair_gen_agrees : forall c bound tokenize lv rv b,
  enc_ok tokenize (fp_l c) lv -> enc_ok tokenize (fp_r c) rv -> fp_side c bound ->
  gen_filter_pair c tokenize lv rv = PBool b -> fp_agrees c b = true.
Proof.
  intros c bound tokenize lv rv b Hl Hr Hside Hg.
  destruct (filter_pair_gen_refines_model c bound tokenize lv rv Hl Hr Hside) as (b' & Hm & Hg').
  rewrite Hg in Hg'. injection Hg' as ->. unfold fp_agrees. rewrite Hm. apply eqb_reflx.
Qed.

(* ====================================================================== instances *)
(* OVERLAP (integer threshold T) and EDIT_DISTANCE (integer tau >= 0, q >= 1): no size bound and
   no arithmetic hypothesis is left *)
Section Instances.
  Variables (tokenize : pyval -> pyval) (ls rs : pyval) (l r : list Z).
  Hypothesis Hsl : scalar ls.
  Hypothesis Hsr : scalar rs.
  Hypothesis Hml : missing ls = false.
  Hypothesis Hmr : missing rs = false.
  Hypothesis Hl : tokenize ls = pints l.
  Hypothesis Hr : tokenize rs = pints r.

  Let B := 1 + len l + len r.
  Lemma Bl : len l < B. Proof. unfold B. pose proof (len_nonneg' r). lia. Qed.
  Lemma Br : len r < B. Proof. unfold B. pose proof (len_nonneg' l). lia. Qed.

  Corollary position_filter_pair_gen_overlap T q (ae am : bool) :
    exists b, position_filter_pair (ovp T q) ae l r = Some b /\
      position_filter_pair_gen (PStr "OVERLAP") (PInt T) (PBool ae) (PBool am) ls rs (PInt q) tokenize
      = PBool b.
  Proof.
    apply (position_filter_pair_gen_refines tokenize ls rs l r Hsl Hsr Hml Hmr Hl Hr (ovp T q) B ae am).
    - apply formulas_ok_overlap.
    - apply Bl.
    - apply Br.
    - rewrite g_ot_ov. discriminate.
  Qed.
  Corollary prefix_filter_pair_gen_overlap T q (ae am : bool) :
    exists b, prefix_filter_pair (ovp T q) ae l r = Some b /\
      prefix_filter_pair_gen (PStr "OVERLAP") (PInt T) (PBool ae) (PBool am) ls rs (PInt q) tokenize
      = PBool b.
  Proof.
    apply (prefix_filter_pair_gen_refines tokenize ls rs l r Hsl Hsr Hml Hmr Hl Hr (ovp T q) B ae am).
    - apply formulas_ok_overlap.
    - apply Bl.
    - apply Br.
  Qed.
  Corollary size_filter_pair_gen_overlap T q (ae am : bool) :
    size_filter_pair_gen (PStr "OVERLAP") (PInt T) (PBool ae) (PBool am) ls rs tokenize
    = PBool (size_filter_pair (ovp T q) ae (len l) (len r)).
  Proof.
    apply (size_filter_pair_gen_refines tokenize ls rs l r Hsl Hsr Hml Hmr Hl Hr (ovp T q) B ae am).
    - apply formulas_ok_overlap.
    - apply Bl.
  Qed.

  Corollary position_filter_pair_gen_ed q tau (ae am : bool) : 0 <= tau -> 1 <= q ->
    exists b, position_filter_pair (edp q tau) ae l r = Some b /\
      position_filter_pair_gen (PStr "EDIT_DISTANCE") (PInt tau) (PBool ae) (PBool am) ls rs (PInt q) tokenize
      = PBool b.
  Proof.
    intros Ht Hq.
    apply (position_filter_pair_gen_refines tokenize ls rs l r Hsl Hsr Hml Hmr Hl Hr (edp q tau) B ae am).
    - apply formulas_ok_ed; assumption.
    - apply Bl.
    - apply Br.
    - rewrite g_ot_ed. discriminate.
  Qed.
  Corollary prefix_filter_pair_gen_ed q tau (ae am : bool) : 0 <= tau -> 1 <= q ->
    exists b, prefix_filter_pair (edp q tau) ae l r = Some b /\
      prefix_filter_pair_gen (PStr "EDIT_DISTANCE") (PInt tau) (PBool ae) (PBool am) ls rs (PInt q) tokenize
      = PBool b.
  Proof.
    intros Ht Hq.
    apply (prefix_filter_pair_gen_refines tokenize ls rs l r Hsl Hsr Hml Hmr Hl Hr (edp q tau) B ae am).
    - apply formulas_ok_ed; assumption.
    - apply Bl.
    - apply Br.
  Qed.
  Corollary size_filter_pair_gen_ed q tau (ae am : bool) : 0 <= tau -> 1 <= q ->
    size_filter_pair_gen (PStr "EDIT_DISTANCE") (PInt tau) (PBool ae) (PBool am) ls rs tokenize
    = PBool (size_filter_pair (edp q tau) ae (len l) (len r)).
  Proof.
    intros Ht Hq.
    apply (size_filter_pair_gen_refines tokenize ls rs l r Hsl Hsr Hml Hmr Hl Hr (edp q tau) B ae am).
    - apply formulas_ok_ed; assumption.
    - apply Bl.
  Qed.
End Instances.

(* ====================================================================== non-vacuity *)
(* strings are tokenized by a fixed table: "ab cd ef" -> [1;2;3], "cd ef gh" -> [2;3;4],
   "ab cd ef gh" -> [1;2;3;4], "ef gh ij kl" -> [3;4;5;6], "xy" -> [9], "" -> [] *)
Definition ex_half : pyval := PFloat (mkF 1 (-1)).                      (* 0.5 *)
Definition ex_jp : fparams := {| fm := "JACCARD"; ft := ex_half; fq := 2 |}.
Definition ex_tok (v : pyval) : pyval :=
  match v with
  | PStr s => if String.eqb s "ab cd ef" then pints [1; 2; 3]
              else if String.eqb s "cd ef gh" then pints [2; 3; 4]
              else if String.eqb s "ab cd ef gh" then pints [1; 2; 3; 4]
              else if String.eqb s "ef gh ij kl" then pints [3; 4; 5; 6]
              else if String.eqb s "xy" then pints [9]
              else if String.eqb s "" then pints []
              else PExc "KeyError"
  | _ => PExc "TypeError"
  end.

(* the hypotheses are satisfiable, and both verdicts occur: with OVERLAP, T = 2 the pair
   ([1;2;3], [2;3;4]) survives; with JACCARD 0.5 the pair ([1;2;3;4], [3;4;5;6]) (two common
   tokens, required overlap 3) is dropped by the position filter INSIDE the loop (the early
   return) while the prefix filter keeps it; ([1;2;3], [9]) is dropped by all but the size filter *)
Example ex_position_kept :
  position_filter_pair_gen (PStr "OVERLAP") (PInt 2) (PBool true) (PBool false)
                           (PStr "ab cd ef") (PStr "cd ef gh") (PInt 2) ex_tok = PBool false
  /\ position_filter_pair (ovp 2 2) true [1; 2; 3] [2; 3; 4] = Some false.
Proof. split; vm_compute; reflexivity. Qed.

Example ex_position_dropped_in_loop :
  position_filter_pair_gen (PStr "JACCARD") ex_half (PBool true) (PBool false)
                           (PStr "ab cd ef gh") (PStr "ef gh ij kl") (PInt 2) ex_tok = PBool true
  /\ position_filter_pair ex_jp true [1; 2; 3; 4] [3; 4; 5; 6] = Some true
  /\ posfp_loop 4 4 (g_ot ex_jp 4 4) [1; 2; 5] [3; 4; 5] 0 0 = None
  /\ prefix_filter_pair_gen (PStr "JACCARD") ex_half (PBool true) (PBool false)
                           (PStr "ab cd ef gh") (PStr "ef gh ij kl") (PInt 2) ex_tok = PBool false
  /\ prefix_filter_pair ex_jp true [1; 2; 3; 4] [3; 4; 5; 6] = Some false.
Proof. repeat split; vm_compute; reflexivity. Qed.

Example ex_no_common_token :
  map (fun f => f (PStr "ab cd ef") (PStr "xy"))
      [fun a b => position_filter_pair_gen (PStr "OVERLAP") (PInt 1) (PBool true) (PBool false) a b (PInt 2) ex_tok;
       fun a b => prefix_filter_pair_gen (PStr "OVERLAP") (PInt 1) (PBool true) (PBool false) a b (PInt 2) ex_tok;
       fun a b => overlap_filter_pair_gen (PInt 1) (PStr ">=") (PBool false) a b ex_tok]
  = [PBool true; PBool true; PBool true]
  /\ size_filter_pair_gen (PStr "OVERLAP") (PInt 1) (PBool true) (PBool false)
                          (PStr "ab cd ef") (PStr "xy") ex_tok = PBool false.
Proof. split; vm_compute; reflexivity. Qed.

Example ex_overlap_ops :
  map (fun op => overlap_filter_pair_gen (PInt 2) (PStr op) (PBool false)
                                         (PStr "ab cd ef") (PStr "cd ef gh") ex_tok)
      [">="; ">"; "="; "<>"]%string
  = [PBool false; PBool true; PBool false; PExc "KeyError"]
  /\ map (fun op => overlap_filter_pair op (PInt 2) false false [1; 2; 3] [2; 3; 4]) [">="; ">"; "="]%string
     = [false; true; false].
Proof. split; vm_compute; reflexivity. Qed.

Example ex_missing_and_empty :
  position_filter_pair_gen (PStr "JACCARD") ex_half (PBool true) (PBool true)
                           PNone (PStr "xy") (PInt 2) ex_tok = PBool false
  /\ position_filter_pair_gen (PStr "JACCARD") ex_half (PBool true) (PBool false)
                           (PStr "xy") (PFloat SpecFloat.S754_nan) (PInt 2) ex_tok = PBool true
  /\ size_filter_pair_gen (PStr "JACCARD") ex_half (PBool false) (PBool false)
                           (PStr "") (PStr "") ex_tok = PBool true
  /\ overlap_filter_pair_gen (PInt 1) (PStr ">=") (PBool false) (PStr "") (PStr "xy") ex_tok = PBool true.
Proof. repeat split; vm_compute; reflexivity. Qed.

(* the general theorem instantiated on a closed case (all hypotheses discharged) *)
Example ex_model_case :
  let c := {| fp_which := FPosition; fp_p := ovp 3 2; fp_op := ">="; fp_allow_empty := true;
              fp_allow_missing := false; fp_l := Some ([97; 98], [1; 2; 3]); fp_r := Some ([99], [2; 3; 4]) |} in
  exists b, model_filter_pair c = Some b /\
            gen_filter_pair c ex_tok (PStr "ab cd ef") (PStr "cd ef gh") = PBool b.
Proof.
  intros c. apply (filter_pair_gen_refines_model c 10 ex_tok).
  - exists "ab cd ef"%string. repeat split; reflexivity.
  - exists "cd ef gh"%string. repeat split; reflexivity.
  - cbn. split; [apply formulas_ok_overlap|]. repeat split; try reflexivity. discriminate.
Qed.

Print Assumptions filter_pair_gen_refines_model.
Print Assumptions filter_pair_gen_agrees.
Print Assumptions position_filter_pair_gen_overlap.
Print Assumptions prefix_filter_pair_gen_overlap.
Print Assumptions size_filter_pair_gen_overlap.
Print Assumptions position_filter_pair_gen_ed.
Print Assumptions prefix_filter_pair_gen_ed.
Print Assumptions size_filter_pair_gen_ed.
Print Assumptions ex_position_dropped_in_loop.
Print Assumptions ex_model_case.
