(* End-to-end statement for the three generated set-similarity wrappers: the returned frame, its
   rows, and their key-level content in terms of the API model Model/Api.v `api_join`.
   Combines WrapperRefineClosed (generated wrapper -> rows per chunk), WrapperRefineClosed.wchunks_chunks_of
   (chunks = Api.chunks_of) and WrapperRefineApi.api_link.  Depends on the Reals axioms through the
   chunk boundaries (SplitArith), like SplitFacts.chunks_of_partition.                            *)
From Coq Require Import ZArith Bool List String Lia Permutation.
From SSJ Require Import F64 PyNum FilterUtilsGen HelperGen TokenOrderingGen ValidationGen IndexGen JoinGen
     TokenOrdering Measures Filters Joins Api Projection ProjSpec IndexPyFacts ProjectionFacts
     JoinGenFacts JoinGenLoop JoinRefine JoinRefineProj SplitFacts Frame WrapperGen WrapperRefineFrame
     WrapperRefineMissing WrapperRefineCore WrapperRefineChunks WrapperRefine WrapperRefineClosed
     WrapperRefineApi.
Import ListNotations.
Open Scope Z_scope.

Section End2End.
  Variables (c : pcase) (p : fparams) (op : string) (ae am : bool) (njobs cpus : Z).
  Variables (lsrc rsrc : list (list pyval)) (showp : pyval).
  Variables (tokenize : pyval -> pyval) (sim_fn : pyval -> pyval -> pyval).
  Variables (toks : pyval -> list Z) (cf : pyval -> pyval -> pyval) (kz : pyval -> Z).

  Let rpres := rpresent c rsrc.
  Let k := kjobs c njobs cpus rsrc.
  Let n := Z.of_nat (List.length rpres).
  Let bs := split_bs k n.

  Hypothesis Hwf : well_formed c.
  Hypothesis Hlsrc : forall row, In row lsrc ->
    List.length row = List.length (p_lcols c) /\ ProjSpec.row_ok row.
  Hypothesis Hrsrc : forall row, In row rsrc ->
    List.length row = List.length (p_rcols c) /\ ProjSpec.row_ok row.
  Hypothesis HtokL : forall row, In row (lpresent c lsrc) ->
    tokenize (cellv (p_lcols c) row (p_ljoin c)) = pints (toks (cellv (p_lcols c) row (p_ljoin c))).
  Hypothesis HtokR : forall row, In row rpres ->
    tokenize (cellv (p_rcols c) row (p_rjoin c)) = pints (toks (cellv (p_rcols c) row (p_rjoin c))).
  Hypothesis Hm : set_measure (fm p).
  Hypothesis Hvt : is_exc (validate_threshold (ft p) (PStr (fm p))) = false.
  Hypothesis Hvop : is_exc (validate_comp_op_for_sim_measure (PStr op) (PStr (fm p))) = false.
  Hypothesis Hvout : is_exc (validate_output_attrs (py_opt_strs (p_lout c)) (py_strs (p_lcols c))
                                                   (py_opt_strs (p_rout c)) (py_strs (p_rcols c))) = false.
  Hypothesis Hop : comp_op_map op = Some cf.
  Hypothesis Hnum : num_of (ft p) <> None.
  Hypothesis Hid : ~ In "_id"%string (mv_header c).
  Hypothesis Hn : n < 2^31.
  Hypothesis Hcore : forall ch, In ch (wchunks c njobs cpus rsrc bs) -> core_hyps c p ae lsrc sim_fn toks ch.

  (* the result of a wrapper W, in full *)
  Definition end_to_end (W : pyval -> pyval -> pyval -> pyval -> pyval -> pyval -> pyval -> pyval -> pyval ->
                             pyval -> pyval -> pyval -> pyval -> pyval -> pyval -> pyval -> pyval -> pyval ->
                             pyval -> (pyval -> pyval) -> (pyval -> pyval -> pyval) -> pyval) : Prop :=
    exists (main : list (list pyval)) (main_api : list Api.out_row),
      W (sframe (p_lcols c) lsrc) (sframe (p_rcols c) rsrc)
        (PStr (p_lkey c)) (PStr (p_rkey c)) (PStr (p_ljoin c)) (PStr (p_rjoin c))
        (ft p) (PStr op) (PBool ae) (PBool am) (py_opt_strs (p_lout c)) (py_opt_strs (p_rout c))
        (PStr (p_lpre c)) (PStr (p_rpre c)) (PBool (p_score c)) (PInt njobs) showp (PInt cpus)
        (PInt (fq p)) tokenize sim_fn
      = sframe (header_spec c) (numbered (main ++ if am then mv_rows c lsrc rsrc else [])) /\
      api_join (jcase_of c p op ae am njobs cpus lsrc rsrc toks kz)
      = Some (main_api ++ if am then missing_pairs (map (arowL c toks kz) lsrc) (map (arowR c toks kz) rsrc) else [])%list /\
      Permutation (map (row_out c kz) main) main_api /\
      map (mv_out kz) (mv_rows c lsrc rsrc)
      = missing_pairs (map (arowL c toks kz) lsrc) (map (arowR c toks kz) rsrc).

  Lemma from_wrapper_result W :
    wrapper_result c p op ae am njobs cpus lsrc rsrc showp tokenize sim_fn toks bs W -> end_to_end W.
  Proof using Hwf Hlsrc Hrsrc Hm Hn.
    intros (TR & Hlen & Hfacts & EW).
    destruct (wchunks_chunks_of c njobs cpus rsrc Hn) as (chs & Ech & Hmap & Hcat).
    fold rpres k n bs in Ech, Hmap, Hcat.
    destruct (api_link c p op ae am njobs cpus lsrc rsrc toks kz Hwf Hlsrc Hrsrc Hm chs TR) as (main_api & EA & Pm & Emv).
    - exact Ech.
    - exact Hcat.
    - rewrite Hlen, <- Hmap. now rewrite map_length.
    - intros j Hj. rewrite Hmap. unfold chunk_fact.
      assert (Hj' : (j < List.length (wchunks c njobs cpus rsrc bs))%nat) by (rewrite <- Hmap, map_length; exact Hj).
      exact (Hfacts j Hj').
    - exists (List.concat (map snd TR)), main_api. repeat split; assumption.
  Qed.

  Theorem jaccard_join_rows_end_to_end : fm p = "JACCARD"%string -> end_to_end jaccard_join_rows.
  Proof using All.
    intros Hfm. apply from_wrapper_result.
    apply (jaccard_join_rows_refines_closed c p op ae am njobs cpus lsrc rsrc showp tokenize sim_fn toks cf); assumption.
  Qed.
  Theorem cosine_join_rows_end_to_end : fm p = "COSINE"%string -> end_to_end cosine_join_rows.
  Proof using All.
    intros Hfm. apply from_wrapper_result.
    apply (cosine_join_rows_refines_closed c p op ae am njobs cpus lsrc rsrc showp tokenize sim_fn toks cf); assumption.
  Qed.
  Theorem dice_join_rows_end_to_end : fm p = "DICE"%string -> end_to_end dice_join_rows.
  Proof using All.
    intros Hfm. apply from_wrapper_result.
    apply (dice_join_rows_refines_closed c p op ae am njobs cpus lsrc rsrc showp tokenize sim_fn toks cf); assumption.
  Qed.
End End2End.

Print Assumptions jaccard_join_rows_end_to_end.
