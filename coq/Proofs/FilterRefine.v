(* C14, structural part (axiom-free):
   - the candidate a PositionFilter probe keeps (positive overlap count) is also a candidate of
     PrefixFilter, and lies inside the size window; with "lower bound <= probe size" it is a
     candidate of SizeFilter too;  this holds for EVERY parameter record p;
   - SizeFilter's verdict is a function of the two token counts;
   - SizeFilter under EDIT_DISTANCE drops exactly the pairs whose counts differ by more than
     the threshold.                                                                         *)
From Coq Require Import ZArith Bool List String Lia.
From SSJ Require Import F64 PyNum FilterUtilsGen TokenOrdering Filters Measures FilterSpec PyFacts.
Import ListNotations.
Open Scope string_scope.
Open Scope Z_scope.

(* ------------------------------------------------------------------ *)
(** * 1. The position loop                                             *)

Lemma positions_from_nomem w l : forall k, memZ w l = false -> positions_from w l k = [].
Proof.
  induction l as [|h t IH]; intros k H; [reflexivity|].
  unfold memZ in H. simpl in H. apply orb_false_elim in H. destruct H as [H1 H2].
  simpl. rewrite H1. apply IH. exact H2.
Qed.

(* outside the size window a posting never changes the counter *)
Lemma pos_update_nowin p nx ny cur j i :
  in_window (g_lb p ny) (g_ub p ny) nx = false -> pos_update p nx ny cur j i = cur.
Proof.
  intros H. unfold pos_update. rewrite H.
  destruct (cur =? -1); reflexivity.
Qed.

Lemma pos_fold_nowin p nx ny j : forall l cur,
  in_window (g_lb p ny) (g_ub p ny) nx = false ->
  fold_left (fun c i => pos_update p nx ny c j i) l cur = cur.
Proof.
  induction l as [|i l IH]; intros cur H; [reflexivity|].
  simpl. rewrite pos_update_nowin by exact H. apply IH. exact H.
Qed.

Lemma pos_loop_nowin p nx ny xp : forall yp j cur,
  in_window (g_lb p ny) (g_ub p ny) nx = false ->
  pos_loop p nx ny xp yp j cur = cur.
Proof.
  induction yp as [|w yp IH]; intros j cur H; [reflexivity|].
  simpl. rewrite pos_fold_nowin by exact H. apply IH. exact H.
Qed.

(* no probe-prefix token occurs in the indexed prefix: no posting is ever met *)
Lemma pos_loop_noshare p nx ny xp : forall yp j cur,
  share yp xp = false -> pos_loop p nx ny xp yp j cur = cur.
Proof.
  induction yp as [|w yp IH]; intros j cur H; [reflexivity|].
  unfold share in H. simpl in H. apply orb_false_elim in H. destruct H as [H1 H2].
  simpl. rewrite positions_from_nomem by exact H1. simpl. apply IH. exact H2.
Qed.

(* the counter never goes below -1 and -1 is absorbing (documentation of the loop shape) *)
Lemma pos_update_m1 p nx ny j i : pos_update p nx ny (-1) j i = -1.
Proof. reflexivity. Qed.

Lemma pos_update_cases p nx ny cur j i :
  pos_update p nx ny cur j i = cur \/
  (in_window (g_lb p ny) (g_ub p ny) nx = true /\
   (pos_update p nx ny cur j i = cur + 1 \/ pos_update p nx ny cur j i = -1)).
Proof.
  unfold pos_update. destruct (cur =? -1); [left; reflexivity|].
  destruct (in_window (g_lb p ny) (g_ub p ny) nx); [|left; reflexivity].
  right. split; [reflexivity|].
  destruct (py_truth (py_ge _ _)); [left|right]; reflexivity.
Qed.

(* ------------------------------------------------------------------ *)
(** * 2. Position candidates are prefix candidates and size-window candidates *)

Theorem pos_cand_prefix_cand : forall (p : fparams) (x y : list Z) (v : Z),
  pos_cand p x y = Some v -> 0 < v -> prefix_cand p x y = Some true.
Proof.
  intros p x y v H Hv. unfold pos_cand in H. unfold prefix_cand.
  destruct (slice0 (g_pl p (len x)) x) as [xp|]; [|discriminate].
  destruct (slice0 (g_pl p (len y)) y) as [yp|]; [|discriminate].
  injection H as H. f_equal.
  destruct (share yp xp) eqn:E; [reflexivity|].
  rewrite pos_loop_noshare in H by exact E. lia.
Qed.

Theorem pos_cand_in_window : forall (p : fparams) (x y : list Z) (v : Z),
  pos_cand p x y = Some v -> 0 < v ->
  in_window (g_lb p (len y)) (g_ub p (len y)) (len x) = true.
Proof.
  intros p x y v H Hv. unfold pos_cand in H.
  destruct (slice0 (g_pl p (len x)) x) as [xp|]; [|discriminate].
  destruct (slice0 (g_pl p (len y)) y) as [yp|]; [|discriminate].
  injection H as H.
  destruct (in_window (g_lb p (len y)) (g_ub p (len y)) (len x)) eqn:E; [reflexivity|].
  rewrite pos_loop_nowin in H by exact E. lia.
Qed.

(* a position candidate has non-empty token lists on both sides *)
Lemma slice0_nil k : forall s, slice0 k [] = Some s -> s = [].
Proof.
  intros s H. destruct k; try discriminate. simpl in H.
  destruct (z <? 0); injection H as <-; [reflexivity | apply firstn_nil].
Qed.

Lemma share_nil_r l : share l [] = false.
Proof. induction l as [|h t IH]; [reflexivity | exact IH]. Qed.

Theorem pos_cand_nonempty : forall (p : fparams) (x y : list Z) (v : Z),
  pos_cand p x y = Some v -> 0 < v -> 0 < len x /\ 0 < len y.
Proof.
  intros p x y v H Hv.
  pose proof (pos_cand_prefix_cand p x y v H Hv) as HP. unfold prefix_cand in HP.
  destruct (slice0 (g_pl p (len x)) x) as [xp|] eqn:Ex; [|discriminate].
  destruct (slice0 (g_pl p (len y)) y) as [yp|] eqn:Ey; [|discriminate].
  injection HP as HP. split.
  - destruct x as [|hx x']; [|unfold len; simpl; lia].
    apply slice0_nil in Ex. subst xp. rewrite share_nil_r in HP. discriminate.
  - destruct y as [|hy y']; [|unfold len; simpl; lia].
    apply slice0_nil in Ey. subst yp. discriminate.
Qed.

(* the size-filter candidate test, given that the early exit "lower bound > probe size" does
   not fire (for JACCARD/COSINE/DICE this is F5, see ArithTight.v; for EDIT_DISTANCE below) *)
Theorem pos_cand_size_cand : forall (p : fparams) (x y : list Z) (v : Z),
  pos_cand p x y = Some v -> 0 < v ->
  py_truth (py_gt (g_lb p (len y)) (PInt (len y))) = false ->
  size_cand p (len x) (len y) = true.
Proof.
  intros p x y v H Hv Hlb.
  destruct (pos_cand_nonempty p x y v H Hv) as [Hx _].
  unfold size_cand. rewrite Hlb, (pos_cand_in_window p x y v H Hv).
  apply Z.ltb_lt in Hx. rewrite Hx. reflexivity.
Qed.

(* when the lower bound is an integer not above the probe size *)
Corollary pos_cand_size_cand_int : forall (p : fparams) (x y : list Z) (v lb : Z),
  pos_cand p x y = Some v -> 0 < v ->
  g_lb p (len y) = PInt lb -> lb <= len y ->
  size_cand p (len x) (len y) = true.
Proof.
  intros p x y v lb H Hv E Hle. apply (pos_cand_size_cand p x y v H Hv).
  rewrite E, py_gt_int. apply Z.ltb_ge. exact Hle.
Qed.

(* ------------------------------------------------------------------ *)
(** * 3. SizeFilter looks at the two counts only                       *)

Definition size_case (p : fparams) (op : string) (ae am : bool) (ls l rs r : list Z) : fpcase :=
  {| fp_which := FSize; fp_p := p; fp_op := op; fp_allow_empty := ae; fp_allow_missing := am;
     fp_l := Some (ls, l); fp_r := Some (rs, r) |}.

Theorem C14_size_fn : forall p op op' ae am am' ls (l : list Z) rs (r : list Z) ls' (l' : list Z) rs' (r' : list Z),
  List.length l = List.length l' -> List.length r = List.length r' ->
  model_filter_pair (size_case p op ae am ls l rs r) =
  model_filter_pair (size_case p op' ae am' ls' l' rs' r').
Proof.
  intros. unfold model_filter_pair, size_case, len. simpl.
  now rewrite H, H0.
Qed.

Theorem C14_size_fn_verdict : forall p ae ls l rs r op am,
  model_filter_pair (size_case p op ae am ls l rs r) =
  Some (size_filter_pair p ae (len l) (len r)).
Proof. reflexivity. Qed.

(* ------------------------------------------------------------------ *)
(** * 4. EDIT_DISTANCE: the window is exactly |nl - nr| <= tau         *)

Definition edp (q tau : Z) : fparams := {| fm := "EDIT_DISTANCE"; ft := PInt tau; fq := q |}.

Lemma g_lb_ed q tau n : g_lb (edp q tau) n = PInt (n - tau).
Proof. reflexivity. Qed.
Lemma g_ub_ed q tau n : g_ub (edp q tau) n = PInt (n + tau).
Proof. reflexivity. Qed.

Lemma in_window_int lb ub n : in_window (PInt lb) (PInt ub) n = (lb <=? n) && (n <=? ub).
Proof.
  unfold in_window. rewrite !py_le_int_val. apply py_and_bool.
Qed.

Lemma in_window_ed q tau a b :
  in_window (g_lb (edp q tau) a) (g_ub (edp q tau) a) b = (Z.abs (a - b) <=? tau).
Proof.
  rewrite g_lb_ed, g_ub_ed, in_window_int.
  destruct (Z.leb_spec (a - tau) b); destruct (Z.leb_spec b (a + tau));
    destruct (Z.leb_spec (Z.abs (a - b)) tau); simpl; try reflexivity; lia.
Qed.

(* tight both ways: dropped  <->  the counts differ by more than tau *)
Theorem F4_ED : forall (q tau a b : Z) (ae : bool),
  ~ (a = 0 /\ b = 0) ->
  (size_filter_pair (edp q tau) ae a b = true <-> tau < Z.abs (a - b)).
Proof.
  intros q tau a b ae Hne. unfold size_filter_pair.
  assert (E : (a =? 0) && (b =? 0) = false).
  { destruct (Z.eqb_spec a 0); destruct (Z.eqb_spec b 0); try reflexivity. tauto. }
  rewrite E, in_window_ed.
  destruct (Z.leb_spec (Z.abs (a - b)) tau); simpl; split; intros; try lia; discriminate.
Qed.

(* two empty token lists are always kept under EDIT_DISTANCE *)
Lemma F4_ED_empty : forall q tau ae, size_filter_pair (edp q tau) ae 0 0 = false.
Proof. reflexivity. Qed.

(* the index-based candidate test under EDIT_DISTANCE, tau >= 0 *)
Theorem size_cand_ed : forall q tau nx ny, 0 <= tau ->
  size_cand (edp q tau) nx ny = (0 <? nx) && (Z.abs (ny - nx) <=? tau).
Proof.
  intros q tau nx ny Ht. unfold size_cand. rewrite in_window_ed, g_lb_ed, py_gt_int.
  assert (E : (ny <? ny - tau) = false) by (apply Z.ltb_ge; lia).
  rewrite E. simpl. now rewrite andb_true_r.
Qed.

(* position candidates are size candidates under EDIT_DISTANCE (tau >= 0) *)
Theorem pos_cand_size_cand_ed : forall q tau x y v, 0 <= tau ->
  pos_cand (edp q tau) x y = Some v -> 0 < v ->
  size_cand (edp q tau) (len x) (len y) = true.
Proof.
  intros q tau x y v Ht H Hv.
  apply (pos_cand_size_cand_int (edp q tau) x y v (len y - tau) H Hv).
  - apply g_lb_ed.
  - lia.
Qed.

(* ------------------------------------------------------------------ *)
(** * 5. Non-vacuity                                                   *)

Definition pJ08 : fparams := {| fm := "JACCARD"; ft := PFloat (mkF 3602879701896397 (-52)); fq := 2 |}.

Example pos_cand_ex : pos_cand pJ08 [1;2;3;4;5] [1;2;3;4;6] = Some 2.
Proof. vm_compute. reflexivity. Qed.
Example prefix_cand_ex : prefix_cand pJ08 [1;2;3;4;5] [1;2;3;4;6] = Some true.
Proof. exact (pos_cand_prefix_cand _ _ _ _ pos_cand_ex eq_refl). Qed.
Example window_ex : in_window (g_lb pJ08 5) (g_ub pJ08 5) 5 = true.
Proof. exact (pos_cand_in_window _ [1;2;3;4;5] [1;2;3;4;6] _ pos_cand_ex eq_refl). Qed.
(* pruned by the window: the counter stays 0 although the prefixes share a token *)
Example pos_cand_ex2 : pos_cand pJ08 [1;2;3;4;5;6;7;8;9;10] [1;2] = Some 0
  /\ prefix_cand pJ08 [1;2;3;4;5;6;7;8;9;10] [1;2] = Some true.
Proof. vm_compute. split; reflexivity. Qed.
Example ed_ex1 : size_filter_pair (edp 2 2) false 5 8 = true /\ size_filter_pair (edp 2 2) false 5 7 = false.
Proof. vm_compute. split; reflexivity. Qed.
Example ed_pos_ex : pos_cand (edp 2 1) [1;2;3;4;5] [2;3;4;5;6] = Some 2
  /\ size_cand (edp 2 1) 5 5 = true.
Proof. vm_compute. split; reflexivity. Qed.

Print Assumptions pos_cand_prefix_cand.
Print Assumptions pos_cand_in_window.
Print Assumptions pos_cand_size_cand.
Print Assumptions C14_size_fn.
Print Assumptions F4_ED.
Print Assumptions size_cand_ed.
Print Assumptions pos_cand_size_cand_ed.
