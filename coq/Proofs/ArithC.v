(* F1, F2, F3, F5 for COSINE, against the generated formulas of Gen/FilterUtilsGen.v. *)
From Coq Require Import ZArith Reals Lia Lra Psatz SpecFloat Bool String List.
From Flocq Require Import Core BinarySingleNaN Relative.
From SSJ Require Import F64 F64Spec PyNum FilterUtilsGen Measures ArithSpec ArithCommon.
Open Scope string_scope.
Open Scope R_scope.

(* ------------------------------------------------------------------ *)
(** * Real-level facts                                                 *)

Lemma RN_1 : RN 1 = 1.
Proof. apply (RN_int 1). simpl. lia. Qed.
Lemma RN_1024 : RN 1024 = 1024.
Proof. apply (RN_int 1024). simpl. lia. Qed.

Definition d1 : R := 1 - eps.
Definition u1 : R := 1 + eps.
Definition d3 : R := d1 * d1 * d1.
Definition d6 : R := d3 * d3.

Lemma du_facts : 0 < d1 <= 1 /\ 1 <= u1 /\ 0 < d3 <= 1 /\ 0 < d6 <= 1.
Proof.
pose proof eps_val as He. unfold d6, d3, d1, u1. rewrite He.
repeat split; nra.
Qed.

(* q = RN (T * T) *)
Lemma C_q : forall T q, / 1073741824 <= T <= 1 -> q = RN (T * T) ->
  / B100 <= T * T <= B100 /\ / 1073741824 / 1073741824 / 2 <= q <= 1 /\
  T * T * d1 <= q <= T * T * u1.
Proof.
intros T q HT ->.
assert (HTT : / 1073741824 * / 1073741824 <= T * T <= 1 * 1) by (apply mul_bounds; lra).
assert (H0 : / B100 <= T * T) by (unfold B100; lra).
pose proof (RN_pos_bounds _ H0) as W1.
pose proof (RN_pos_crude _ H0) as W2.
split. { unfold B100 in *. lra. }
split.
- split. lra.
  apply Rle_trans with (RN 1); [apply RN_le; lra | rewrite RN_1; lra].
- exact W1.
Qed.

(* lower bound / prefix: v = RN (q * n), ranges from the envelope only *)
Lemma C_lb_range : forall T n q v, / 1073741824 <= T <= 1 -> 1 <= n <= 2097151 ->
  RN n = n -> q = RN (T * T) -> v = RN (q * n) ->
  / B100 <= q * n <= B100 /\ 0 <= v <= B99 /\ v <= n /\ v <= q * n * u1.
Proof.
intros T n q v HT Hn Hnn Hq Hv.
destruct (C_q T q HT Hq) as (_ & Q1 & Q2). clear Hq.
assert (Hqn : / 1073741824 / 1073741824 / 2 * 1 <= q * n <= 1 * 2097151)
  by (apply mul_bounds; lra).
assert (H0 : / B100 <= q * n) by (unfold B100; lra).
pose proof (RN_pos_bounds _ H0) as V1. rewrite <- Hv in V1.
pose proof (RN_pos_crude _ H0) as V2. rewrite <- Hv in V2.
assert (Hvn : v <= n).
{ rewrite Hv. apply Rle_trans with (RN n); [ | rewrite Hnn; lra]. apply RN_le.
  assert (q * n <= 1 * n) by (apply Rmult_le_compat_r; lra). lra. }
unfold B100, B99, u1 in *. repeat split; lra.
Qed.

Lemma u4_d6 : forall k v, 0 <= k <= 1048575 -> v * d6 <= k * (u1 * u1 * (u1 * u1)) ->
  v < k + / 20000.
Proof.
intros k v Hk H. unfold d6, d3, d1, u1 in H. pose proof eps_val as He. rewrite He in H.
assert (B1 : 1 - 6 * / 9007199254740992 <=
  (1 - / 9007199254740992) * (1 - / 9007199254740992) * (1 - / 9007199254740992) *
  ((1 - / 9007199254740992) * (1 - / 9007199254740992) * (1 - / 9007199254740992))) by nra.
assert (B2 : (1 + / 9007199254740992) * (1 + / 9007199254740992) *
  ((1 + / 9007199254740992) * (1 + / 9007199254740992)) <= 1 + 5 * / 9007199254740992) by nra.
destruct (Rle_or_lt 0 v) as [Hv|Hv]; [ | lra].
assert (B3 : v * (1 - 6 * / 9007199254740992) <= k * (1 + 5 * / 9007199254740992)) by nra.
lra.
Qed.

(* QC2 is the squared qualification:  T^2 a b d6 <= o^2 u^2 *)
Lemma C_lb_real : forall T n k o ab q v,
  / 1073741824 <= T <= 1 -> 1 <= n <= 2097151 -> RN n = n ->
  q = RN (T * T) -> v = RN (q * n) ->
  1 <= o -> 0 <= k <= 1048575 -> 1 <= ab ->
  o * o * n <= k * ab ->
  T * T * ab * d6 <= o * o * (u1 * u1) ->
  v < k + / 20000.
Proof.
intros T n k o ab q v HT Hn Hnn Hq Hv Ho Hk Hab Hc QC2.
destruct (C_lb_range T n q v HT Hn Hnn Hq Hv) as (_ & _ & _ & V1).
destruct (C_q T q HT Hq) as (_ & Q1 & [_ Q2]).
destruct du_facts as (D1 & U1 & D3 & D6).
clear Hq Hv Hnn.
assert (A1 : q * n <= T * T * u1 * n) by (apply Rmult_le_compat_r; lra).
assert (A2 : v <= T * T * n * (u1 * u1)).
{ assert (q * n * u1 <= T * T * u1 * n * u1) by (apply Rmult_le_compat_r; lra).
  replace (T * T * n * (u1 * u1)) with (T * T * u1 * n * u1) by ring. lra. }
(* T T n ab d6 <= o o n u^2 <= k ab u^2 *)
assert (A3 : T * T * ab * d6 * n <= o * o * (u1 * u1) * n) by (apply Rmult_le_compat_r; lra).
assert (A4 : o * o * n * (u1 * u1) <= k * ab * (u1 * u1)).
{ apply Rmult_le_compat_r; [ | lra]. apply Rmult_le_pos; lra. }
assert (A5 : T * T * n * d6 * ab <= k * (u1 * u1) * ab).
{ replace (T * T * n * d6 * ab) with (T * T * ab * d6 * n) by ring.
  replace (k * (u1 * u1) * ab) with (k * ab * (u1 * u1)) by ring.
  replace (o * o * (u1 * u1) * n) with (o * o * n * (u1 * u1)) in A3 by ring. lra. }
assert (A6 : T * T * n * d6 <= k * (u1 * u1)) by (apply le_of_mul_r with ab; lra).
assert (A7 : v * d6 <= T * T * n * (u1 * u1) * d6) by (apply Rmult_le_compat_r; lra).
assert (A8 : T * T * n * d6 * (u1 * u1) <= k * (u1 * u1) * (u1 * u1)).
{ apply Rmult_le_compat_r; [ | lra]. apply Rmult_le_pos; lra. }
apply u4_d6. lra.
replace (k * (u1 * u1 * (u1 * u1))) with (k * (u1 * u1) * (u1 * u1)) by ring.
replace (T * T * n * (u1 * u1) * d6) with (T * T * n * d6 * (u1 * u1)) in A7 by ring. lra.
Qed.

(* upper bound: v = RN (n / q) *)
Lemma C_ub_range : forall T n q Z v, / 1073741824 <= T <= 1 -> 1 <= n <= 2097151 ->
  RN n = n -> q = RN (T * T) -> Z = n / q -> v = RN Z ->
  0 < q /\ / B100 <= Z <= B100 /\ 0 <= v <= B99 /\ n <= v /\ Z * q = n /\ Z * d1 <= v /\ 1 <= Z.
Proof.
intros T n q Z v HT Hn Hnn Hq HZ Hv.
destruct (C_q T q HT Hq) as (_ & Q1 & Q2). clear Hq.
assert (Hq0 : 0 < q) by lra.
assert (HZq : Z * q = n) by (rewrite HZ; apply div_mul; lra).
assert (HZb : n <= Z <= 2097151 * (1073741824 * 1073741824 * 2)).
{ rewrite HZ. apply div_bounds. lra. split.
  - assert (n * q <= n * 1) by (apply Rmult_le_compat_l; lra). lra.
  - assert (2097151 * (1073741824 * 1073741824 * 2) * (/ 1073741824 / 1073741824 / 2)
            <= 2097151 * (1073741824 * 1073741824 * 2) * q) by (apply Rmult_le_compat_l; lra).
    lra. }
clear HZ.
assert (H0 : / B100 <= Z) by (unfold B100; lra).
pose proof (RN_pos_bounds _ H0) as V1. rewrite <- Hv in V1.
pose proof (RN_pos_crude _ H0) as V2. rewrite <- Hv in V2.
assert (Hvn : n <= v).
{ rewrite Hv. apply Rle_trans with (RN n); [rewrite Hnn; lra | ]. apply RN_le. lra. }
unfold B100, B99, d1 in *. repeat split; lra.
Qed.

Lemma d7_u3 : forall k v, 0 <= k <= 1048575 -> 0 <= v ->
  k * (d6 * d1) <= v * (u1 * u1 * u1) -> k - / 20000 < v.
Proof.
intros k v Hk Hv H. unfold d6, d3, d1, u1 in H. pose proof eps_val as He. rewrite He in H.
assert (B1 : 1 - 7 * / 9007199254740992 <=
  (1 - / 9007199254740992) * (1 - / 9007199254740992) * (1 - / 9007199254740992) *
  ((1 - / 9007199254740992) * (1 - / 9007199254740992) * (1 - / 9007199254740992)) *
  (1 - / 9007199254740992)) by nra.
assert (B2 : (1 + / 9007199254740992) * (1 + / 9007199254740992) * (1 + / 9007199254740992)
   <= 1 + 4 * / 9007199254740992) by nra.
assert (B3 : k * (1 - 7 * / 9007199254740992) <= v * (1 + 4 * / 9007199254740992)) by nra.
lra.
Qed.

Lemma C_ub_real : forall T n k o ab q Z v,
  / 1073741824 <= T <= 1 -> 1 <= n <= 2097151 -> RN n = n ->
  q = RN (T * T) -> Z = n / q -> v = RN Z ->
  1 <= o -> 0 <= k <= 1048575 -> 1 <= ab ->
  k * (o * o) <= n * ab ->
  T * T * ab * d6 <= o * o * (u1 * u1) ->
  k - / 20000 < v.
Proof.
intros T n k o ab q Z v HT Hn Hnn Hq HZ Hv Ho Hk Hab Hc QC2.
destruct (C_ub_range T n q Z v HT Hn Hnn Hq HZ Hv) as (Hq0 & _ & [V0 _] & _ & HZq & V1 & Z1).
destruct (C_q T q HT Hq) as (_ & Q1 & [_ Q2]).
destruct du_facts as (D1 & U1 & D3 & D6).
clear Hq Hv Hnn HZ.
assert (Hoo : 1 <= o * o) by nra.
(* k o o d6 <= n ab d6 = Z q ab d6 <= Z T T u ab d6 <= Z u o o u u *)
assert (A1 : k * (o * o) * d6 <= n * ab * d6) by (apply Rmult_le_compat_r; lra).
assert (A2 : Z * q <= Z * (T * T * u1)) by (apply Rmult_le_compat_l; lra).
assert (A3 : n * (ab * d6) <= Z * (T * T * u1) * (ab * d6)).
{ rewrite <- HZq at 1. apply Rmult_le_compat_r; [ | lra]. apply Rmult_le_pos; lra. }
assert (A4 : Z * u1 * (T * T * ab * d6) <= Z * u1 * (o * o * (u1 * u1))).
{ apply Rmult_le_compat_l; [ | lra]. apply Rmult_le_pos; lra. }
assert (A5 : k * d6 * (o * o) <= Z * (u1 * u1 * u1) * (o * o)).
{ replace (k * d6 * (o * o)) with (k * (o * o) * d6) by ring.
  replace (Z * (u1 * u1 * u1) * (o * o)) with (Z * u1 * (o * o * (u1 * u1))) by ring.
  replace (n * ab * d6) with (n * (ab * d6)) in A1 by ring.
  replace (Z * (T * T * u1) * (ab * d6)) with (Z * u1 * (T * T * ab * d6)) in A3 by ring.
  lra. }
assert (A6 : k * d6 <= Z * (u1 * u1 * u1)) by (apply le_of_mul_r with (o * o); lra).
assert (A7 : k * d6 * d1 <= Z * (u1 * u1 * u1) * d1) by (apply Rmult_le_compat_r; lra).
assert (A8 : Z * d1 * (u1 * u1 * u1) <= v * (u1 * u1 * u1)).
{ apply Rmult_le_compat_r; [ | lra]. apply Rmult_le_pos; [apply Rmult_le_pos | ]; lra. }
apply d7_u3; lra.
Qed.

(* square roots of sizes *)
Lemma sqrt_size : forall x, 1 <= x <= 1048576 -> 1 <= sqrt x <= 1024 /\ sqrt x * sqrt x = x.
Proof.
intros x Hx. split; [split | ].
- rewrite <- sqrt_1. apply sqrt_le_1_alt. lra.
- replace 1024 with (sqrt (1024 * 1024)) by (apply sqrt_square; lra).
  apply sqrt_le_1_alt. lra.
- apply sqrt_sqrt. lra.
Qed.

Lemma v_d3_u3 : forall k v, 0 <= k <= 1048575 -> v * d3 <= k * (u1 * u1 * u1) ->
  v < k + / 20000.
Proof.
intros k v Hk H. unfold d3, d1, u1 in H. pose proof eps_val as He. rewrite He in H.
assert (B1 : 1 - 3 * / 9007199254740992 <=
  (1 - / 9007199254740992) * (1 - / 9007199254740992) * (1 - / 9007199254740992)) by nra.
assert (B2 : (1 + / 9007199254740992) * (1 + / 9007199254740992) * (1 + / 9007199254740992)
   <= 1 + 4 * / 9007199254740992) by nra.
destruct (Rle_or_lt 0 v) as [Hv|Hv]; [ | lra].
assert (B3 : v * (1 - 3 * / 9007199254740992) <= k * (1 + 4 * / 9007199254740992)) by nra.
lra.
Qed.

(* overlap threshold: v = RN (T * RN s), s = sqrt (a b) *)
Lemma C_alpha_range : forall T s r v, / 1073741824 <= T <= 1 -> 1 <= s <= 1048576 ->
  r = RN s -> v = RN (T * r) ->
  / B100 <= T * r <= B100 /\ 0 <= v <= B99 /\ 0 <= r <= s * u1 /\ v <= T * r * u1.
Proof.
intros T s r v HT Hs Hr Hv.
assert (H0 : / B100 <= s) by (unfold B100; lra).
pose proof (RN_pos_bounds _ H0) as W1. rewrite <- Hr in W1.
pose proof (RN_pos_crude _ H0) as W2. rewrite <- Hr in W2.
clear Hr.
assert (HTr : / 1073741824 * / 2 <= T * r <= 1 * 2097152) by (apply mul_bounds; lra).
assert (H1 : / B100 <= T * r) by (unfold B100; lra).
pose proof (RN_pos_bounds _ H1) as V1. rewrite <- Hv in V1.
pose proof (RN_pos_crude _ H1) as V2. rewrite <- Hv in V2.
unfold B100, B99, u1 in *. repeat split; lra.
Qed.

Lemma C_alpha_real : forall T o s r v, / 1073741824 <= T <= 1 -> 1 <= s <= 1048576 ->
  r = RN s -> v = RN (T * r) -> 1 <= o <= 1048575 ->
  T * s * d3 <= o * u1 ->
  v < o + / 20000.
Proof.
intros T o s r v HT Hs Hr Hv Ho QC.
destruct (C_alpha_range T s r v HT Hs Hr Hv) as (_ & _ & [R0 R1] & V1).
destruct du_facts as (D1 & U1 & D3 & D6).
clear Hr Hv.
assert (A1 : T * r <= T * (s * u1)) by (apply Rmult_le_compat_l; lra).
assert (A2 : T * r * u1 <= T * (s * u1) * u1) by (apply Rmult_le_compat_r; lra).
assert (A3 : v * d3 <= T * (s * u1) * u1 * d3) by (apply Rmult_le_compat_r; lra).
assert (A4 : T * s * d3 * (u1 * u1) <= o * u1 * (u1 * u1)).
{ apply Rmult_le_compat_r; [ | lra]. apply Rmult_le_pos; lra. }
apply v_d3_u3; lra.
Qed.

(* the computed cosine similarity *)
Lemma C_sim_real : forall a b o A B P Q,
  1 <= o -> o <= a -> o <= b -> a <= 1048575 -> b <= 1048575 ->
  A = RN (sqrt a) -> B = RN (sqrt b) -> P = RN (A * B) -> Q = o / P ->
  / B100 <= A * B <= B100 /\ 0 < P /\ / B100 <= Q <= B100 /\
  (forall T, 0 <= T -> T <= RN Q -> T * sqrt (a * b) * d3 <= o * u1).
Proof.
intros a b o A B P Q Ho Hoa Hob Ha Hb HA HB HP HQ.
destruct (sqrt_size a ltac:(lra)) as [Sa1 Sa2].
destruct (sqrt_size b ltac:(lra)) as [Sb1 Sb2].
set (sa := sqrt a) in *. set (sb := sqrt b) in *.
destruct du_facts as (D1 & U1 & D3 & D6).
assert (H0a : / B100 <= sa) by (unfold B100; lra).
assert (H0b : / B100 <= sb) by (unfold B100; lra).
pose proof (RN_pos_bounds _ H0a) as [A1 _]. rewrite <- HA in A1. fold d1 in A1.
pose proof (RN_pos_bounds _ H0b) as [B1 _]. rewrite <- HB in B1. fold d1 in B1.
assert (A2 : 1 <= A <= 1024).
{ rewrite HA. split.
  - apply Rle_trans with (RN 1); [rewrite RN_1; lra | apply RN_le; lra].
  - apply Rle_trans with (RN 1024); [apply RN_le; lra | rewrite RN_1024; lra]. }
assert (B2 : 1 <= B <= 1024).
{ rewrite HB. split.
  - apply Rle_trans with (RN 1); [rewrite RN_1; lra | apply RN_le; lra].
  - apply Rle_trans with (RN 1024); [apply RN_le; lra | rewrite RN_1024; lra]. }
clear HA HB.
assert (AB : 1 * 1 <= A * B <= 1024 * 1024) by (apply mul_bounds; lra).
assert (AB2 : sa * d1 * (sb * d1) <= A * B).
{ apply Rmult_le_compat; try lra; apply Rmult_le_pos; lra. }
assert (H0 : / B100 <= A * B) by (unfold B100; lra).
pose proof (RN_pos_bounds _ H0) as [P1 _]. rewrite <- HP in P1. fold d1 in P1.
pose proof (RN_pos_crude _ H0) as [_ P2]. rewrite <- HP in P2.
assert (P3 : 1 <= P).
{ rewrite HP. apply Rle_trans with (RN 1); [rewrite RN_1; lra | apply RN_le; lra]. }
clear HP.
assert (HQP : Q * P = o) by (rewrite HQ; apply div_mul; lra).
assert (HQb : / 2097152 <= Q <= 1048576) by (rewrite HQ; apply div_bounds; lra).
clear HQ.
split. { unfold B100 in *. lra. }
split. lra.
split. { unfold B100. lra. }
intros T HT0 HT.
assert (H1 : / B100 <= Q) by (unfold B100; lra).
pose proof (RN_pos_bounds _ H1) as [_ Q2]. fold u1 in Q2.
assert (C1 : T * P <= Q * u1 * P) by (apply Rmult_le_compat_r; lra).
assert (C2 : sa * sb * d3 <= P).
{ assert (sa * d1 * (sb * d1) * d1 <= A * B * d1) by (apply Rmult_le_compat_r; lra).
  unfold d3. replace (sa * sb * (d1 * d1 * d1)) with (sa * d1 * (sb * d1) * d1) by ring. lra. }
assert (C3 : T * (sa * sb * d3) <= T * P) by (apply Rmult_le_compat_l; lra).
rewrite sqrt_mult by lra. fold sa sb.
replace (T * (sa * sb) * d3) with (T * (sa * sb * d3)) by ring.
replace (Q * u1 * P) with (Q * P * u1) in C1 by ring. rewrite HQP in C1. lra.
Qed.

(* squaring the qualification *)
Lemma C_square : forall T a b o, 0 <= T -> 1 <= a -> 1 <= b -> 0 <= o ->
  T * sqrt (a * b) * d3 <= o * u1 ->
  T * T * (a * b) * d6 <= o * o * (u1 * u1).
Proof.
intros T a b o HT Ha Hb Ho H.
destruct du_facts as (D1 & U1 & D3 & D6).
assert (Hab : 0 <= a * b) by (apply Rmult_le_pos; lra).
assert (Hs : 0 <= sqrt (a * b)) by apply sqrt_pos.
assert (H0 : 0 <= T * sqrt (a * b) * d3).
{ apply Rmult_le_pos; [apply Rmult_le_pos | ]; lra. }
assert (H2 : T * sqrt (a * b) * d3 * (T * sqrt (a * b) * d3) <= o * u1 * (o * u1))
  by (apply Rmult_le_compat; lra).
replace (T * sqrt (a * b) * d3 * (T * sqrt (a * b) * d3))
  with (T * T * (sqrt (a * b) * sqrt (a * b)) * (d3 * d3)) in H2 by ring.
rewrite sqrt_sqrt in H2 by exact Hab.
unfold d6. lra.
Qed.

(* ------------------------------------------------------------------ *)
(** * The generated formulas at "COSINE"                               *)
Open Scope Z_scope.

Definition qC (t : f64) : f64 := fmul t t.
Definition xlbC (t : f64) (n : Z) : f64 := fmul (qC t) (f_of_Z n).
Definition xubC (t : f64) (n : Z) : f64 := fdiv (f_of_Z n) (qC t).
Definition xotC (t : f64) (a b : Z) : f64 := fmul t (fsqrt (f_of_Z (a * b))).

Lemma lbZ_C_eq : forall t n,
  lbZ "COSINE" (PFloat t) n = toZ (py_int (py_ceil (PFloat (f_round_nd (xlbC t n) 4)))).
Proof. reflexivity. Qed.

Lemma ubZ_C_eq : forall t n, f_is_zero (qC t) = false ->
  ubZ "COSINE" (PFloat t) n = toZ (py_int (py_floor (PFloat (f_round_nd (xubC t n) 4)))).
Proof.
intros t n H. unfold ubZ.
change (get_size_upper_bound (PInt n) (PStr "COSINE") (PFloat t))
  with (py_int (py_floor (py_round2 (py_truediv (PInt n) (PFloat (qC t))) (PInt 4)))).
now rewrite py_truediv_if.
Qed.

Lemma plZ_C_eq : forall t q n, 1 <= n ->
  plZ "COSINE" (PFloat t) q n =
  toZ (py_int (py_add (py_sub (PInt n) (py_ceil (PFloat (f_round_nd (xlbC t n) 4)))) (PInt 1))).
Proof. intros t q [|p|p] Hn; try lia. reflexivity. Qed.

Lemma otZ_C_eq : forall t q a b,
  f_is_nan (f_of_Z (a * b)) = false -> f_sign (f_of_Z (a * b)) = false ->
  otZ "COSINE" (PFloat t) q a b = toZ (py_ceil (PFloat (f_round_nd (xotC t a b) 4))).
Proof.
intros t q a b H1 H2. unfold otZ.
change (get_overlap_threshold (PInt a) (PInt b) (PStr "COSINE") (PFloat t) (PInt q))
  with (py_ceil (py_round2 (py_mul (PFloat t) (py_sqrt (PInt (a * b)))) (PInt 4))).
now rewrite py_sqrt_int.
Qed.

Open Scope R_scope.

Lemma qC_spec : forall t, env_t t = true ->
  fin (qC t) /\ FR (qC t) = RN (FR t * FR t) /\ f_is_zero (qC t) = false.
Proof.
intros t Henv. destruct (env_t_R t Henv) as [Ht HT].
destruct (C_q (FR t) _ HT eq_refl) as (B1 & B2 & _).
unfold qC.
destruct (fmul_pos t t Ht Ht B1) as [H1 H2].
split. exact H1. split. exact H2.
apply fin_pos_nz. exact H1. rewrite H2. lra.
Qed.

Lemma xlbC_spec : forall t n, env_t t = true -> (1 <= n < 2^21)%Z ->
  fin (xlbC t n) /\ FR (xlbC t n) = RN (RN (FR t * FR t) * IZR n) /\
  0 <= FR (xlbC t n) <= B99 /\ FR (xlbC t n) <= IZR n.
Proof.
intros t n Henv Hn. destruct (env_t_R t Henv) as [Ht HT].
destruct (qC_spec t Henv) as (Hq & Hqv & _).
destruct (f_of_size n) as [Hfn Hvn]. { lia. }
pose proof (IZR_21 n Hn) as Hn'.
assert (Hnn : RN (IZR n) = IZR n) by (apply RN_size; lia).
destruct (C_lb_range (FR t) (IZR n) _ _ HT Hn' Hnn eq_refl eq_refl) as (B1 & B2 & B3 & _).
unfold xlbC.
destruct (fmul_pos (qC t) (f_of_Z n) Hq Hfn) as [V1 V2].
{ rewrite Hqv, Hvn. exact B1. }
rewrite Hqv, Hvn in V2.
split. exact V1. split. exact V2. rewrite V2. split; assumption.
Qed.

Lemma xubC_spec : forall t n, env_t t = true -> (1 <= n < 2^21)%Z ->
  fin (xubC t n) /\ FR (xubC t n) = RN (IZR n / RN (FR t * FR t)) /\
  0 <= FR (xubC t n) <= B99 /\ IZR n <= FR (xubC t n).
Proof.
intros t n Henv Hn. destruct (env_t_R t Henv) as [Ht HT].
destruct (qC_spec t Henv) as (Hq & Hqv & _).
destruct (f_of_size n) as [Hfn Hvn]. { lia. }
pose proof (IZR_21 n Hn) as Hn'.
assert (Hnn : RN (IZR n) = IZR n) by (apply RN_size; lia).
destruct (C_ub_range (FR t) (IZR n) _ _ _ HT Hn' Hnn eq_refl eq_refl eq_refl)
  as (B0 & B1 & B2 & B3 & _).
unfold xubC.
destruct (fdiv_pos (f_of_Z n) (qC t) Hfn Hq) as [V1 V2]; rewrite ?Hqv, ?Hvn; try assumption.
rewrite Hqv, Hvn in V2.
split. exact V1. split. exact V2. rewrite V2. split; assumption.
Qed.

Lemma sqrt_ab_range : forall a b : R, 1 <= a <= 1048575 -> 1 <= b <= 1048575 ->
  1 <= sqrt (a * b) <= 1048576.
Proof.
intros a b Ha Hb.
assert (H : 1 * 1 <= a * b <= 1048575 * 1048575) by (apply mul_bounds; lra).
split.
- rewrite <- sqrt_1. apply sqrt_le_1_alt. lra.
- replace 1048576 with (sqrt (1048576 * 1048576)) by (apply sqrt_square; lra).
  apply sqrt_le_1_alt. lra.
Qed.

Lemma xotC_spec : forall t a b, env_t t = true ->
  (1 <= a < size_bound)%Z -> (1 <= b < size_bound)%Z ->
  f_is_nan (f_of_Z (a * b)) = false /\ f_sign (f_of_Z (a * b)) = false /\
  fin (xotC t a b) /\ FR (xotC t a b) = RN (FR t * RN (sqrt (IZR a * IZR b))) /\
  0 <= FR (xotC t a b) <= B99.
Proof.
intros t a b Henv Ha Hb. destruct (env_t_R t Henv) as [Ht HT].
pose proof (size_R a Ha) as Ha'. pose proof (size_R b Hb) as Hb'.
unfold size_bound in *.
destruct (f_of_size (a * b)) as [Hfp Hvp]. { change (2^20)%Z with 1048576%Z in *. nia. }
rewrite mult_IZR in Hvp.
assert (Hab : 1 * 1 <= IZR a * IZR b <= 1048575 * 1048575) by (apply mul_bounds; lra).
assert (Hpos : 0 < FR (f_of_Z (a * b))) by (rewrite Hvp; lra).
destruct (fin_pos_shape _ Hfp Hpos) as (S1 & S2 & _).
destruct (fsqrt_spec _ Hfp Hpos) as [R1 R2]. rewrite Hvp in R2.
pose proof (sqrt_ab_range _ _ Ha' Hb') as Hs.
destruct (C_alpha_range (FR t) _ _ _ HT Hs eq_refl eq_refl) as (B1 & B2 & _).
unfold xotC.
destruct (fmul_pos t (fsqrt (f_of_Z (a * b))) Ht R1) as [V1 V2].
{ rewrite R2. exact B1. }
rewrite R2 in V2.
split. exact S2. split. exact S1. split. exact V1. split. exact V2. rewrite V2. exact B2.
Qed.

(* what qualification means for the threshold *)
Lemma qual_C : forall t a b o, env_t t = true -> sizes_ok a b o ->
  qual_ge "COSINE" t a b o = true ->
  FR t * sqrt (IZR a * IZR b) * d3 <= IZR o * u1.
Proof.
intros t a b o Henv Hs Hq.
destruct (env_t_R t Henv) as [Ht HT].
destruct (sizes_R a b o Hs) as (Ho & Hoa & Hob & Ha & Hb & _ & _).
destruct du_facts as (D1 & U1 & D3 & D6).
unfold qual_ge in Hq. apply andb_prop in Hq. destruct Hq as [Hq _].
unfold sim_sizes in Hq.
destruct ((o =? a)%Z && (o =? b)%Z) eqn:E.
- apply andb_prop in E. destruct E as [E1 E2].
  apply Z.eqb_eq in E1. apply Z.eqb_eq in E2. subst a b.
  rewrite sqrt_square by lra.
  assert (FR t * d3 <= 1 * 1) by (apply Rmult_le_compat; lra).
  assert (FR t * d3 * IZR o <= 1 * 1 * IZR o) by (apply Rmult_le_compat_r; lra).
  assert (IZR o * 1 <= IZR o * u1) by (apply Rmult_le_compat_l; lra).
  replace (FR t * IZR o * d3) with (FR t * d3 * IZR o) by ring. lra.
- change (sim_formula "COSINE" a b o)
    with (fdiv (f_of_Z o) (fmul (fsqrt (f_of_Z a)) (fsqrt (f_of_Z b)))) in Hq.
  destruct Hs as (S1 & S2 & S3 & S4 & S5). unfold size_bound in *.
  destruct (f_of_size o) as [Hfo Hvo]. { lia. }
  destruct (f_of_size a) as [Hfa Hva]. { lia. }
  destruct (f_of_size b) as [Hfb Hvb]. { lia. }
  destruct (fsqrt_spec _ Hfa) as [A1 A2]. { rewrite Hva. lra. }
  destruct (fsqrt_spec _ Hfb) as [B1 B2]. { rewrite Hvb. lra. }
  rewrite Hva in A2. rewrite Hvb in B2.
  destruct (C_sim_real (IZR a) (IZR b) (IZR o) _ _ _ _ Ho Hoa Hob Ha Hb
              eq_refl eq_refl eq_refl eq_refl) as (R1 & R2 & R3 & R4).
  destruct (fmul_pos _ _ A1 B1) as [P1 P2]. { rewrite A2, B2. exact R1. }
  rewrite A2, B2 in P2.
  destruct (fdiv_pos _ _ Hfo P1) as [Q1 Q2]; rewrite ?P2, ?Hvo; try assumption.
  rewrite P2, Hvo in Q2.
  apply fleb_true in Hq; [ | assumption..].
  rewrite Q2 in Hq.
  apply R4. lra. exact Hq.
Qed.

(* ------------------------------------------------------------------ *)
(** * The theorems                                                     *)

Section WithQual.
Variables (t : f64) (a b o : Z).
Hypothesis Henv : env_t t = true.
Hypothesis Hs : sizes_ok a b o.
Hypothesis HQ : FR t * sqrt (IZR a * IZR b) * d3 <= IZR o * u1.

Lemma C_QC2 : FR t * FR t * (IZR a * IZR b) * d6 <= IZR o * IZR o * (u1 * u1).
Proof.
destruct (env_t_R t Henv) as [Ht HT].
destruct (sizes_R a b o Hs) as (Ho & Hoa & Hob & Ha & Hb & _ & _).
apply C_square; first [exact HQ | lra].
Qed.

Lemma C_lb_k : forall n k : Z, (1 <= n < size_bound)%Z -> (0 <= k < size_bound)%Z ->
  (o * o * n <= k * (a * b))%Z ->
  fin (xlbC t n) /\ 0 <= FR (xlbC t n) <= B99 /\ FR (xlbC t n) < IZR k + / 20000.
Proof.
intros n k Hn Hk Hc.
destruct (env_t_R t Henv) as [Ht HT].
destruct (sizes_R a b o Hs) as (Ho & Hoa & Hob & Ha & Hb & _ & _).
destruct (xlbC_spec t n Henv (size_21 n Hn)) as (F1 & F2 & F3 & _).
split. exact F1. split. exact F3.
rewrite F2.
apply (C_lb_real (FR t) (IZR n) (IZR k) (IZR o) (IZR a * IZR b)
         (RN (FR t * FR t)) (RN (RN (FR t * FR t) * IZR n)) HT); try reflexivity; try assumption.
- apply IZR_21. now apply size_21.
- apply RN_size. unfold size_bound in Hn. lia.
- unfold size_bound in Hk. change (2^20)%Z with 1048576%Z in Hk.
  split; apply IZR_le; lia.
- assert (1 * 1 <= IZR a * IZR b) by (apply Rmult_le_compat; lra). lra.
- rewrite <- !mult_IZR. apply IZR_le. exact Hc.
- exact C_QC2.
Qed.

Lemma C_ub_k : forall n k : Z, (1 <= n < size_bound)%Z -> (0 <= k < size_bound)%Z ->
  (k * (o * o) <= n * (a * b))%Z ->
  fin (xubC t n) /\ 0 <= FR (xubC t n) <= B99 /\ IZR k - / 20000 < FR (xubC t n).
Proof.
intros n k Hn Hk Hc.
destruct (env_t_R t Henv) as [Ht HT].
destruct (sizes_R a b o Hs) as (Ho & Hoa & Hob & Ha & Hb & _ & _).
destruct (xubC_spec t n Henv (size_21 n Hn)) as (F1 & F2 & F3 & _).
split. exact F1. split. exact F3.
rewrite F2.
apply (C_ub_real (FR t) (IZR n) (IZR k) (IZR o) (IZR a * IZR b)
         (RN (FR t * FR t)) (IZR n / RN (FR t * FR t)) (RN (IZR n / RN (FR t * FR t))) HT);
  try reflexivity; try assumption.
- apply IZR_21. now apply size_21.
- apply RN_size. unfold size_bound in Hn. lia.
- unfold size_bound in Hk. change (2^20)%Z with 1048576%Z in Hk.
  split; apply IZR_le; lia.
- assert (1 * 1 <= IZR a * IZR b) by (apply Rmult_le_compat; lra). lra.
- rewrite <- !mult_IZR. apply IZR_le. exact Hc.
- exact C_QC2.
Qed.

Lemma C_ot_o :
  f_is_nan (f_of_Z (a * b)) = false /\ f_sign (f_of_Z (a * b)) = false /\
  fin (xotC t a b) /\ 0 <= FR (xotC t a b) <= B99 /\ FR (xotC t a b) < IZR o + / 20000.
Proof.
destruct (env_t_R t Henv) as [Ht HT].
destruct (sizes_R a b o Hs) as (Ho & Hoa & Hob & Ha & Hb & _ & _).
pose proof Hs as (S1 & S2 & S3 & S4 & S5).
destruct (xotC_spec t a b Henv) as (N1 & N2 & F1 & F2 & F3); try lia.
split. exact N1. split. exact N2. split. exact F1. split. exact F3.
rewrite F2.
apply (C_alpha_real (FR t) (IZR o) (sqrt (IZR a * IZR b)) (RN (sqrt (IZR a * IZR b)))
         (RN (FR t * RN (sqrt (IZR a * IZR b)))) HT); try reflexivity; try assumption.
- apply sqrt_ab_range; lra.
- lra.
Qed.
End WithQual.

(* integer side conditions *)
Lemma Zsq_le : forall x y : Z, (0 <= x <= y -> x * x <= y * y)%Z.
Proof. intros x y H. apply Z.mul_le_mono_nonneg; lia. Qed.

Lemma Zc_lb1 : forall o a b : Z, (1 <= o <= a -> 1 <= b -> o * o * b <= a * (a * b))%Z.
Proof.
intros o a b Ho Hb. replace (a * (a * b))%Z with (a * a * b)%Z by ring.
apply Z.mul_le_mono_nonneg_r. lia. apply Zsq_le. lia.
Qed.
Lemma Zc_lb2 : forall o a b : Z, (1 <= o <= b -> 1 <= a -> o * o * a <= b * (a * b))%Z.
Proof.
intros o a b Ho Ha. replace (b * (a * b))%Z with (b * b * a)%Z by ring.
apply Z.mul_le_mono_nonneg_r. lia. apply Zsq_le. lia.
Qed.
Lemma Zc_pl1 : forall o a b : Z, (1 <= o <= b -> 1 <= a -> o * o * a <= o * (a * b))%Z.
Proof.
intros o a b Ho Ha. replace (o * o * a)%Z with (o * a * o)%Z by ring.
replace (o * (a * b))%Z with (o * a * b)%Z by ring.
apply Z.mul_le_mono_nonneg_l. nia. lia.
Qed.
Lemma Zc_pl2 : forall o a b : Z, (1 <= o <= a -> 1 <= b -> o * o * b <= o * (a * b))%Z.
Proof.
intros o a b Ho Hb. replace (o * o * b)%Z with (o * b * o)%Z by ring.
replace (o * (a * b))%Z with (o * b * a)%Z by ring.
apply Z.mul_le_mono_nonneg_l. nia. lia.
Qed.
Lemma Zc_ub1 : forall o a b : Z, (1 <= o <= b -> 1 <= a -> a * (o * o) <= b * (a * b))%Z.
Proof.
intros o a b Ho Ha. replace (b * (a * b))%Z with (a * (b * b))%Z by ring.
apply Z.mul_le_mono_nonneg_l. lia. apply Zsq_le. lia.
Qed.
Lemma Zc_ub2 : forall o a b : Z, (1 <= o <= a -> 1 <= b -> b * (o * o) <= a * (a * b))%Z.
Proof.
intros o a b Ho Hb. replace (a * (a * b))%Z with (b * (a * a))%Z by ring.
apply Z.mul_le_mono_nonneg_l. lia. apply Zsq_le. lia.
Qed.

Theorem F1_C : F1_stmt "COSINE".
Proof.
intros t a b o Henv Hs Hq.
pose proof (qual_C t a b o Henv Hs Hq) as HQ.
pose proof Hs as (S1 & S2 & S3 & S4 & S5).
destruct (qC_spec t Henv) as (_ & _ & Hqz).
assert (Ha31 : (Z.abs a <= 2^31)%Z) by (apply abs_31; lia).
assert (Hb31 : (Z.abs b <= 2^31)%Z) by (apply abs_31; lia).
destruct (C_lb_k t a b o Henv Hs HQ b a) as (L1 & L2 & L3); try lia. { apply Zc_lb1; lia. }
destruct (lb_combo "COSINE" t b _ a (lbZ_C_eq t b) L1 L2 Ha31 L3) as (lb & E1 & R1).
destruct (C_ub_k t a b o Henv Hs HQ b a) as (U1 & U2 & U3); try lia. { apply Zc_ub1; lia. }
destruct (ub_combo "COSINE" t b _ a (ubZ_C_eq t b Hqz) U1 U2 Ha31 U3) as (ub & E2 & R2).
destruct (C_lb_k t a b o Henv Hs HQ a b) as (L1' & L2' & L3'); try lia. { apply Zc_lb2; lia. }
destruct (lb_combo "COSINE" t a _ b (lbZ_C_eq t a) L1' L2' Hb31 L3') as (lb' & E3 & R3).
destruct (C_ub_k t a b o Henv Hs HQ a b) as (U1' & U2' & U3'); try lia. { apply Zc_ub2; lia. }
destruct (ub_combo "COSINE" t a _ b (ubZ_C_eq t a Hqz) U1' U2' Hb31 U3') as (ub' & E4 & R4).
exists lb, ub, lb', ub'. repeat split; try assumption; lia.
Qed.
Print Assumptions F1_C.

Theorem F2_C : F2_stmt "COSINE".
Proof.
intros t q a b o Henv Hs Hq.
pose proof (qual_C t a b o Henv Hs Hq) as HQ.
pose proof Hs as (S1 & S2 & S3 & S4 & S5).
assert (Ho31 : (Z.abs o <= 2^31)%Z) by (apply abs_31; lia).
destruct (C_ot_o t a b o Henv Hs HQ) as (N1 & N2 & A1 & A2 & A3).
destruct (ot_combo "COSINE" t q a b _ o (otZ_C_eq t q a b N1 N2) A1 A2 Ho31 A3) as (al & E1 & R1).
assert (HQ' : FR t * sqrt (IZR b * IZR a) * d3 <= IZR o * u1).
{ rewrite (Rmult_comm (IZR b)). exact HQ. }
destruct (C_ot_o t b a o Henv (sizes_ok_sym _ _ _ Hs) HQ') as (N1' & N2' & A1' & A2' & A3').
destruct (ot_combo "COSINE" t q b a _ o (otZ_C_eq t q b a N1' N2') A1' A2' Ho31 A3')
  as (al' & E2 & R2).
exists al, al'. repeat split; assumption.
Qed.
Print Assumptions F2_C.

Theorem F3_C : F3_stmt "COSINE".
Proof.
intros t q a b o Henv Hs Hq.
pose proof (qual_C t a b o Henv Hs Hq) as HQ.
pose proof Hs as (S1 & S2 & S3 & S4 & S5).
assert (Ho31 : (Z.abs o <= 2^31)%Z) by (apply abs_31; lia).
destruct (C_lb_k t a b o Henv Hs HQ a o) as (L1 & L2 & L3); try lia. { apply Zc_pl1; lia. }
destruct (pl_combo "COSINE" t q a _ o (plZ_C_eq t q a ltac:(lia)) L1 L2 Ho31 L3) as (pa & E1 & R1).
destruct (C_lb_k t a b o Henv Hs HQ b o) as (L1' & L2' & L3'); try lia. { apply Zc_pl2; lia. }
destruct (pl_combo "COSINE" t q b _ o (plZ_C_eq t q b ltac:(lia)) L1' L2' Ho31 L3') as (pb & E2 & R2).
exists pa, pb. repeat split; try assumption; lia.
Qed.
Print Assumptions F3_C.

Theorem F5_C : F5_stmt "COSINE".
Proof.
intros t q n Henv Hn.
assert (Hn21 : (1 <= n < 2^21)%Z) by (apply size_21; lia).
assert (Hn31 : (Z.abs n <= 2^31)%Z) by (apply abs_31; lia).
destruct (qC_spec t Henv) as (_ & _ & Hqz).
destruct (xlbC_spec t n Henv Hn21) as (L1 & _ & L2 & L3).
assert (L3' : FR (xlbC t n) < IZR n + / 20000) by lra.
destruct (lb_combo "COSINE" t n _ n (lbZ_C_eq t n) L1 L2 Hn31 L3') as (lb & E1 & R1).
destruct (pl_combo "COSINE" t q n _ n (plZ_C_eq t q n ltac:(lia)) L1 L2 Hn31 L3') as (p & E3 & R3).
destruct (xubC_spec t n Henv Hn21) as (U1 & _ & U2 & U3).
assert (U3' : IZR n - / 20000 < FR (xubC t n)) by lra.
destruct (ub_combo "COSINE" t n _ n (ubZ_C_eq t n Hqz) U1 U2 Hn31 U3') as (ub & E2 & R2).
exists lb, ub, p. repeat split; try assumption; lia.
Qed.
Print Assumptions F5_C.
