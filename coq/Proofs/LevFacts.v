(* Facts about the Levenshtein model Ext/Lev.v:
   - lev_spec: textbook recursive specification of the edit distance;
   - symmetry, identity of indiscernibles, length-difference lower bound;
   - edit scripts: lev_spec s t is realised by a script of single-character edits, and every
     script of n edits bounds lev_spec by n;
   - lev_dp_correct: the executable row-by-row dynamic programme `lev` computes lev_spec.
   Stdlib only. *)
From Coq Require Import ZArith List Lia Arith.
From SSJ Require Import Lev.
Import ListNotations.
Local Open Scope nat_scope.

(* substitution cost *)
Definition scost (a b : Z) : nat := if Z.eqb a b then 0 else 1.

(* textbook recursive specification: structural on s, inner fix on t *)
Fixpoint lev_spec (s t : list Z) : nat :=
  match s with
  | [] => length t
  | a :: s' =>
      (fix inner (t : list Z) : nat :=
         match t with
         | [] => S (length s')
         | b :: t' =>
             Nat.min (Nat.min (S (lev_spec s' t)) (S (inner t'))) (scost a b + lev_spec s' t')
         end) t
  end.

Lemma lev_spec_nil_l t : lev_spec [] t = length t.
Proof. reflexivity. Qed.

Lemma lev_spec_nil_r s : lev_spec s [] = length s.
Proof. destruct s; reflexivity. Qed.

Lemma lev_spec_cons a s b t :
  lev_spec (a :: s) (b :: t) =
  Nat.min (Nat.min (S (lev_spec s (b :: t))) (S (lev_spec (a :: s) t))) (scost a b + lev_spec s t).
Proof. reflexivity. Qed.

Lemma scost_sym a b : scost a b = scost b a.
Proof. unfold scost. rewrite Z.eqb_sym. reflexivity. Qed.

Lemma scost_refl a : scost a a = 0.
Proof. unfold scost. rewrite Z.eqb_refl. reflexivity. Qed.

Lemma scost_le1 a b : scost a b <= 1.
Proof. unfold scost. destruct (Z.eqb a b); lia. Qed.

Lemma scost_zero a b : scost a b = 0 -> a = b.
Proof. unfold scost. destruct (Z.eqb_spec a b); [auto|discriminate]. Qed.

(* ------------------------------------------------------------------ *)
(* symmetry, reflexivity, zero, length difference                      *)

Theorem lev_spec_sym : forall s t, lev_spec s t = lev_spec t s.
Proof.
  induction s as [|a s IHs]; intros t.
  - rewrite lev_spec_nil_r. reflexivity.
  - induction t as [|b t IHt].
    + reflexivity.
    + rewrite !lev_spec_cons.
      rewrite <- IHt, <- (IHs (b :: t)), <- (IHs t), (scost_sym b a). lia.
Qed.

Theorem lev_spec_refl : forall s, lev_spec s s = 0.
Proof.
  induction s as [|a s IH]; [reflexivity|].
  rewrite lev_spec_cons, scost_refl, IH. lia.
Qed.

Theorem lev_spec_len_diff : forall s t,
  length s - length t <= lev_spec s t /\ length t - length s <= lev_spec s t.
Proof.
  induction s as [|a s IHs]; intros t.
  - rewrite lev_spec_nil_l. simpl. lia.
  - induction t as [|b t IHt].
    + rewrite lev_spec_nil_r. simpl. lia.
    + rewrite lev_spec_cons.
      pose proof (IHs (b :: t)) as H1. pose proof (IHs t) as H2. simpl length in *. lia.
Qed.

Theorem lev_spec_zero : forall s t, lev_spec s t = 0 -> s = t.
Proof.
  induction s as [|a s IHs]; intros t.
  - rewrite lev_spec_nil_l. destruct t; [reflexivity|discriminate].
  - destruct t as [|b t].
    + rewrite lev_spec_nil_r. discriminate.
    + rewrite lev_spec_cons. intros H.
      assert (Hc : scost a b = 0) by lia.
      assert (Hl : lev_spec s t = 0) by lia.
      apply scost_zero in Hc. apply IHs in Hl. subst. reflexivity.
Qed.

(* ------------------------------------------------------------------ *)
(* elementary upper bounds                                             *)

Lemma lev_del_le a s t : lev_spec (a :: s) t <= S (lev_spec s t).
Proof.
  destruct t as [|b t].
  - rewrite !lev_spec_nil_r. simpl. lia.
  - rewrite lev_spec_cons. lia.
Qed.

Lemma lev_ins_le s b t : lev_spec s (b :: t) <= S (lev_spec s t).
Proof.
  destruct s as [|a s].
  - rewrite !lev_spec_nil_l. simpl. lia.
  - rewrite lev_spec_cons. lia.
Qed.

Lemma lev_sub_le a s b t : lev_spec (a :: s) (b :: t) <= scost a b + lev_spec s t.
Proof. rewrite lev_spec_cons. lia. Qed.

Lemma lev_uncons_r : forall s c t, lev_spec s t <= S (lev_spec s (c :: t)).
Proof.
  induction s as [|a s IH]; intros c t.
  - rewrite !lev_spec_nil_l. simpl. lia.
  - rewrite lev_spec_cons.
    pose proof (lev_del_le a s t). pose proof (IH c t). lia.
Qed.

Lemma lev_uncons_l : forall c s t, lev_spec s t <= S (lev_spec (c :: s) t).
Proof.
  intros c s t. rewrite (lev_spec_sym s t), (lev_spec_sym (c :: s) t). apply lev_uncons_r.
Qed.

(* ------------------------------------------------------------------ *)
(* edit scripts                                                        *)

Inductive edit1 : list Z -> list Z -> Prop :=
| E_ins : forall a b c, edit1 (a ++ b) (a ++ c :: b)
| E_del : forall a b c, edit1 (a ++ c :: b) (a ++ b)
| E_sub : forall a b c d, edit1 (a ++ c :: b) (a ++ d :: b).

Inductive editn : nat -> list Z -> list Z -> Prop :=
| En_0 : forall s, editn 0 s s
| En_S : forall n s u t, edit1 s u -> editn n u t -> editn (S n) s t.

Lemma edit1_sym s u : edit1 s u -> edit1 u s.
Proof. intros H; destruct H; constructor. Qed.

Lemma edit1_cons c s u : edit1 s u -> edit1 (c :: s) (c :: u).
Proof.
  intros H; destruct H as [a b x|a b x|a b x y].
  - exact (E_ins (c :: a) b x).
  - exact (E_del (c :: a) b x).
  - exact (E_sub (c :: a) b x y).
Qed.

Lemma editn_cons c n s t : editn n s t -> editn n (c :: s) (c :: t).
Proof.
  induction 1 as [s|n s u t H1 _ IH]; [constructor|].
  eapply En_S; [apply edit1_cons; exact H1|exact IH].
Qed.

Lemma editn_ins_all : forall t, editn (length t) [] t.
Proof.
  induction t as [|b t IH]; [constructor|]. simpl.
  eapply En_S; [exact (E_ins [] [] b)|]. simpl. apply editn_cons. exact IH.
Qed.

Lemma editn_del_all : forall s, editn (length s) s [].
Proof.
  induction s as [|a s IH]; [constructor|]. simpl.
  eapply En_S; [exact (E_del [] s a)|]. exact IH.
Qed.

Theorem lev_spec_script : forall s t, editn (lev_spec s t) s t.
Proof.
  induction s as [|a s IHs]; intros t.
  - rewrite lev_spec_nil_l. apply editn_ins_all.
  - induction t as [|b t IHt].
    + rewrite lev_spec_nil_r. apply editn_del_all.
    + rewrite lev_spec_cons.
      destruct (Nat.min_dec (Nat.min (S (lev_spec s (b :: t))) (S (lev_spec (a :: s) t)))
                            (scost a b + lev_spec s t)) as [E|E]; rewrite E; clear E.
      * destruct (Nat.min_dec (S (lev_spec s (b :: t))) (S (lev_spec (a :: s) t))) as [E|E];
          rewrite E; clear E.
        -- (* delete a *)
           eapply En_S; [exact (E_del [] s a)|]. apply IHs.
        -- (* insert b *)
           eapply En_S; [exact (E_ins [] (a :: s) b)|]. simpl. apply editn_cons. exact IHt.
      * unfold scost. destruct (Z.eqb_spec a b) as [->|Hne].
        -- simpl. apply editn_cons. apply IHs.
        -- simpl. eapply En_S; [exact (E_sub [] s a b)|]. simpl. apply editn_cons. apply IHs.
Qed.

(* converse: a script of n edits bounds the distance by n *)

Lemma lev_edit1_cong c s u :
  (forall t, lev_spec s t <= S (lev_spec u t)) ->
  forall t, lev_spec (c :: s) t <= S (lev_spec (c :: u) t).
Proof.
  intros H. induction t as [|b t IHt].
  - specialize (H []). rewrite !lev_spec_nil_r in *. simpl. lia.
  - rewrite (lev_spec_cons c u).
    pose proof (lev_del_le c s (b :: t)). pose proof (H (b :: t)).
    pose proof (lev_ins_le (c :: s) b t). pose proof (H t).
    pose proof (lev_sub_le c s b t). lia.
Qed.

Lemma lev_sub_head x y b : forall t, lev_spec (x :: b) t <= S (lev_spec (y :: b) t).
Proof.
  induction t as [|e t IHt].
  - rewrite !lev_spec_nil_r. simpl. lia.
  - rewrite (lev_spec_cons y b).
    pose proof (lev_del_le x b (e :: t)). pose proof (lev_ins_le (x :: b) e t).
    pose proof (lev_sub_le x b e t). pose proof (scost_le1 x e). lia.
Qed.

Lemma lev_edit1 s u : edit1 s u -> forall t, lev_spec s t <= S (lev_spec u t).
Proof.
  intros H; destruct H as [a b x|a b x|a b x y];
    induction a as [|c a IH]; simpl; try (apply lev_edit1_cong; exact IH).
  - intros t. apply lev_uncons_l.
  - intros t. apply lev_del_le.
  - apply lev_sub_head.
Qed.

Theorem editn_lev : forall n s t, editn n s t -> lev_spec s t <= n.
Proof.
  induction 1 as [s|n s u t H1 _ IH].
  - rewrite lev_spec_refl. lia.
  - pose proof (lev_edit1 s u H1 t). lia.
Qed.

Corollary lev_spec_le_iff s t d : lev_spec s t <= d <-> exists n, n <= d /\ editn n s t.
Proof.
  split.
  - intros H. exists (lev_spec s t). split; [exact H|apply lev_spec_script].
  - intros [n [Hn He]]. apply editn_lev in He. lia.
Qed.

Theorem lev_spec_triangle s u t : lev_spec s t <= lev_spec s u + lev_spec u t.
Proof.
  pose proof (lev_spec_script s u) as H. revert H. generalize (lev_spec s u) as n.
  intros n H. induction H as [s|n s v u H1 _ IH].
  - simpl. lia.
  - pose proof (lev_edit1 s v H1 t). lia.
Qed.

(* ------------------------------------------------------------------ *)
(* reversal invariance, and the recursion at the END of the strings    *)

Lemma edit1_rev s u : edit1 s u -> edit1 (rev s) (rev u).
Proof.
  intros H; destruct H as [a b x|a b x|a b x y];
    rewrite !rev_app_distr; simpl; rewrite <- !app_assoc; simpl; constructor.
Qed.

Lemma editn_rev n s t : editn n s t -> editn n (rev s) (rev t).
Proof.
  induction 1 as [s|n s u t H1 _ IH]; [constructor|].
  eapply En_S; [apply edit1_rev; exact H1|exact IH].
Qed.

Lemma lev_rev_le s t : lev_spec (rev s) (rev t) <= lev_spec s t.
Proof. apply editn_lev, editn_rev, lev_spec_script. Qed.

Theorem lev_spec_rev s t : lev_spec (rev s) (rev t) = lev_spec s t.
Proof.
  apply Nat.le_antisymm; [apply lev_rev_le|].
  pose proof (lev_rev_le (rev s) (rev t)) as H. rewrite !rev_involutive in H. exact H.
Qed.

Lemma lev_spec_snoc s a t c :
  lev_spec (s ++ [a]) (t ++ [c]) =
  Nat.min (Nat.min (S (lev_spec s (t ++ [c]))) (S (lev_spec (s ++ [a]) t))) (scost a c + lev_spec s t).
Proof.
  rewrite <- (lev_spec_rev (s ++ [a]) (t ++ [c])), <- (lev_spec_rev s (t ++ [c])),
          <- (lev_spec_rev (s ++ [a]) t), <- (lev_spec_rev s t).
  rewrite !rev_unit. apply lev_spec_cons.
Qed.

(* ------------------------------------------------------------------ *)
(* the dynamic programme                                               *)

Definition dp_row (s t1 : list Z) (from n : nat) : list Z :=
  map (fun k => Z.of_nat (lev_spec (firstn k s) t1)) (seq from n).

Lemma firstn_len_app (s1 s2 : list Z) : firstn (length s1) (s1 ++ s2) = s1.
Proof. rewrite firstn_app, Nat.sub_diag, firstn_all. simpl. apply app_nil_r. Qed.

Lemma firstn_Slen_app (s1 : list Z) a s2 : firstn (S (length s1)) (s1 ++ a :: s2) = s1 ++ [a].
Proof.
  replace (s1 ++ a :: s2) with ((s1 ++ [a]) ++ s2) by (rewrite <- app_assoc; reflexivity).
  replace (S (length s1)) with (length (s1 ++ [a])) by (rewrite app_length; simpl; lia).
  apply firstn_len_app.
Qed.

Lemma next_row_ok c t1 : forall s2 s1,
  next_row c s2 (dp_row (s1 ++ s2) t1 (length s1) (S (length s2)))
           (Z.of_nat (lev_spec s1 (t1 ++ [c])))
  = dp_row (s1 ++ s2) (t1 ++ [c]) (S (length s1)) (length s2).
Proof.
  induction s2 as [|a s2 IH]; intros s1.
  - reflexivity.
  - unfold dp_row. cbn [length seq map next_row].
    rewrite firstn_len_app, firstn_Slen_app.
    assert (Hv : Z.min (Z.min (Z.of_nat (lev_spec s1 (t1 ++ [c])) + 1)
                              (Z.of_nat (lev_spec (s1 ++ [a]) t1) + 1))
                       (Z.of_nat (lev_spec s1 t1) + (if Z.eqb a c then 0 else 1))
                 = Z.of_nat (lev_spec (s1 ++ [a]) (t1 ++ [c]))).
    { rewrite lev_spec_snoc. unfold scost. destruct (Z.eqb a c); lia. }
    rewrite Hv. f_equal.
    specialize (IH (s1 ++ [a])).
    replace ((s1 ++ [a]) ++ s2) with (s1 ++ a :: s2) in IH by (rewrite <- app_assoc; reflexivity).
    replace (length (s1 ++ [a])) with (S (length s1)) in IH by (rewrite app_length; simpl; lia).
    unfold dp_row in IH. cbn [seq map] in IH. rewrite firstn_Slen_app in IH.
    exact IH.
Qed.

Definition lev_step (s : list Z) (st : list Z * Z) (c : Z) : list Z * Z :=
  let i' := (snd st + 1)%Z in (i' :: next_row c s (fst st) i', i').

Lemma lev_step_ok s t1 c :
  lev_step s (dp_row s t1 0 (S (length s)), Z.of_nat (length t1)) c
  = (dp_row s (t1 ++ [c]) 0 (S (length s)), Z.of_nat (length (t1 ++ [c]))).
Proof.
  unfold lev_step. cbn [fst snd].
  assert (Hi : (Z.of_nat (length t1) + 1)%Z = Z.of_nat (length (t1 ++ [c])))
    by (rewrite app_length; simpl; lia).
  rewrite Hi. f_equal.
  pose proof (next_row_ok c t1 s []) as H. cbn [app length] in H.
  rewrite lev_spec_nil_l in H. rewrite H.
  unfold dp_row. cbn [seq map firstn]. rewrite lev_spec_nil_l. reflexivity.
Qed.

Lemma lev_fold_ok s : forall t2 t1,
  fold_left (lev_step s) t2 (dp_row s t1 0 (S (length s)), Z.of_nat (length t1))
  = (dp_row s (t1 ++ t2) 0 (S (length s)), Z.of_nat (length (t1 ++ t2))).
Proof.
  induction t2 as [|c t2 IH]; intros t1.
  - rewrite app_nil_r. reflexivity.
  - cbn [fold_left]. rewrite lev_step_ok, IH, <- app_assoc. reflexivity.
Qed.

Lemma dp_row_init s : dp_row s [] 0 (S (length s)) = map Z.of_nat (seq 0 (S (length s))).
Proof.
  unfold dp_row. apply map_ext_in. intros k Hk. apply in_seq in Hk.
  rewrite lev_spec_nil_r, firstn_length. f_equal. lia.
Qed.

Lemma lev_rows_eq s t :
  lev_rows s t = fold_left (lev_step s) t (dp_row s [] 0 (S (length s)), Z.of_nat (length (@nil Z))).
Proof. rewrite dp_row_init. reflexivity. Qed.

Theorem lev_dp_correct : forall s t, lev s t = Z.of_nat (lev_spec s t).
Proof.
  intros s t. unfold lev. rewrite lev_rows_eq, lev_fold_ok. cbn [fst app].
  unfold dp_row. rewrite seq_S, map_app. cbn [map plus]. rewrite last_last.
  rewrite firstn_all. reflexivity.
Qed.
