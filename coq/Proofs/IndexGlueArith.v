(* Totality of the GENERATED filter_utils formulas for JACCARD / COSINE / DICE on EVERY size that
   find_candidates can feed them (not only on qualifying pairs as F1-F3, and including the empty
   probe n = 0 and the whole size window [lb, ub] for the overlap threshold):
       formulas_ok_jcd : is_jcd m -> env_t t -> formulas_ok {m, PFloat t, q} size_bound
   and the instantiation of the end-to-end candidate theorems of IndexGlue.v.
   Real-number reasoning: inherits the Reals / Flocq axioms (as F5_J etc.).              *)
From Coq Require Import ZArith Reals Lia Lra Psatz SpecFloat Bool String List.
From Flocq Require Import Core BinarySingleNaN Relative.
From SSJ Require Import F64 F64Spec PyNum FilterUtilsGen TokenOrderingGen IndexGen Measures ArithSpec
     ArithCommon ArithJ ArithC ArithD ArithTight JoinSpec TokenOrdering Filters
     IndexPyFacts IndexRefine IndexPrefix Joins IndexGlue.
Import ListNotations.
Open Scope string_scope.
Open Scope R_scope.

(* ------------------------------------------------------------------ *)
(** * nonnegative values bounded by a power of two                     *)

Lemma RN_pow_bounds : forall x e, (-1074 <= e)%Z -> 0 <= x <= bpow radix2 e ->
  0 <= RN x <= bpow radix2 e.
Proof.
intros x e He [H0 H1]. split; [now apply RN_ge_0|].
apply Rle_trans with (RN (bpow radix2 e)); [now apply RN_le|].
rewrite RN_id; [lra | now apply format_bpow].
Qed.

Lemma pow_no_overflow : forall x e, (e <= 1023)%Z -> 0 <= x <= bpow radix2 e ->
  Rabs (RN x) < bpow radix2 1024.
Proof.
intros x e He [H0 H1]. apply RN_no_overflow. rewrite Rabs_pos_eq by exact H0.
apply Rle_trans with (bpow radix2 e); [exact H1 | now apply bpow_le].
Qed.

Lemma fmul_nn : forall x y e, fin x -> fin y -> (-1074 <= e <= 1023)%Z ->
  0 <= FR x * FR y <= bpow radix2 e ->
  fin (fmul x y) /\ 0 <= FR (fmul x y) <= bpow radix2 e.
Proof.
intros x y e Hx Hy He Hr.
destruct (fmul_spec x y Hx Hy) as [F V]. { apply (pow_no_overflow _ e); [lia | exact Hr]. }
split; [exact F|]. rewrite V. apply RN_pow_bounds; [lia | exact Hr].
Qed.

Lemma fdiv_nn : forall x y e, fin x -> fin y -> 0 < FR y -> (-1074 <= e <= 1023)%Z ->
  0 <= FR x / FR y <= bpow radix2 e ->
  fin (fdiv x y) /\ 0 <= FR (fdiv x y) <= bpow radix2 e.
Proof.
intros x y e Hx Hy Hy0 He Hr.
destruct (fdiv_spec x y Hx Hy) as [F V]. { lra. } { apply (pow_no_overflow _ e); [lia | exact Hr]. }
split; [exact F|]. rewrite V. apply RN_pow_bounds; [lia | exact Hr].
Qed.

Lemma f_of_Z_nn : forall n e, (0 <= e <= 1023)%Z -> (0 <= n <= 2 ^ e)%Z ->
  fin (f_of_Z n) /\ 0 <= FR (f_of_Z n) <= bpow radix2 e /\ ((1 <= n)%Z -> 1 <= FR (f_of_Z n)).
Proof.
intros n e He Hn.
assert (Hr : 0 <= IZR n <= bpow radix2 e).
{ split; [apply IZR_le; lia|]. rewrite <- IZR_Zpower by lia. apply IZR_le. exact (proj2 Hn). }
destruct (f_of_Z_spec n) as [F V]. { apply (pow_no_overflow _ e); [lia | exact Hr]. }
split; [exact F|]. rewrite V. split; [apply RN_pow_bounds; [lia | exact Hr]|].
intros H1. apply Rle_trans with (RN 1); [rewrite ArithC.RN_1; lra|].
apply RN_le. apply IZR_le. exact H1.
Qed.

Lemma round4_nn : forall x e, fin x -> (e <= 99)%Z -> 0 <= FR x <= bpow radix2 e ->
  fin (f_round_nd x 4) /\ FR (f_round_nd x 4) = R4 (FR x).
Proof.
intros x e Hx He [H0 H1]. apply f_round_4_spec; [exact Hx|].
rewrite Rabs_pos_eq by exact H0.
apply Rle_trans with (bpow radix2 e); [exact H1|].
change 633825300114114700748351602688 with (bpow radix2 99). now apply bpow_le.
Qed.

Lemma ceil_total : forall x e, fin x -> (e <= 99)%Z -> 0 <= FR x <= bpow radix2 e ->
  exists k, py_ceil (PFloat (f_round_nd x 4)) = PInt k.
Proof.
intros x e Hx He Hr. destruct (round4_nn x e Hx He Hr) as [[_ F] _].
exists (f_ceil (f_round_nd x 4)). now apply py_ceil_fin.
Qed.

Lemma floor_total_bound : forall x e, fin x -> (0 <= e <= 97)%Z -> 0 <= FR x <= bpow radix2 e ->
  exists k, py_floor (PFloat (f_round_nd x 4)) = PInt k /\ (k <= 2 ^ (e + 2))%Z.
Proof.
intros x e Hx He Hr. destruct (round4_nn x e Hx) as [[_ F] V]; [lia | exact Hr |].
exists (f_floor (f_round_nd x 4)). split; [now apply py_floor_fin|].
rewrite f_floor_spec, V. apply le_IZR.
change (IZR (2 ^ (e + 2))) with (IZR (Zpower radix2 (e + 2))). rewrite IZR_Zpower by lia.
apply Rle_trans with (R4 (FR x)); [apply Zfloor_lb|].
pose proof (R4_hi (FR x) (proj1 Hr)) as Hh.
pose proof eps_val as Ev. pose proof eps_pos as Ep.
assert (Hb1 : 1 <= bpow radix2 e).
{ change 1 with (bpow radix2 0). apply bpow_le. lia. }
replace (e + 2)%Z with (2 + e)%Z by lia. rewrite bpow_plus. change (bpow radix2 2) with 4.
assert (He1 : 1 + eps <= 2) by (rewrite Ev; lra).
assert ((FR x + / 20000) * (1 + eps) <= (FR x + / 20000) * 2)
  by (apply Rmult_le_compat_l; lra).
lra.
Qed.

(* turn `bpow radix2 e` (e a literal) into a numeral, everywhere *)
Ltac lit e := let v := eval vm_compute in (2 ^ e)%Z in
  change (bpow radix2 e) with (IZR v) in *.

(* ------------------------------------------------------------------ *)
(** * statements per measure                                           *)
Definition UB : Z := (2 ^ 84)%Z.

Definition lbub_total (m : string) : Prop :=
  forall t n, env_t t = true -> (0 <= n < size_bound)%Z ->
    exists lb ub, lbZ m (PFloat t) n = Some lb /\ ubZ m (PFloat t) n = Some ub /\ (ub <= UB)%Z.

Definition ot_total (m : string) : Prop :=
  forall t q a b, env_t t = true -> (0 <= a <= UB)%Z -> (0 <= b < size_bound)%Z ->
    exists al, otZ m (PFloat t) q a b = Some al.

Lemma size_nn : forall n, (0 <= n < size_bound)%Z ->
  fin (f_of_Z n) /\ 0 <= FR (f_of_Z n) <= bpow radix2 20.
Proof.
intros n Hn. unfold size_bound in Hn.
destruct (f_of_Z_nn n 20) as (F & V & _); [lia | lia | split; assumption].
Qed.

Lemma sum_nn : forall a b, (0 <= a <= UB)%Z -> (0 <= b < size_bound)%Z ->
  fin (f_of_Z (a + b)) /\ 0 <= FR (f_of_Z (a + b)) <= bpow radix2 85.
Proof.
intros a b Ha Hb. unfold UB, size_bound in *.
destruct (f_of_Z_nn (a + b) 85) as (F & V & _); [lia | | split; assumption].
change (2 ^ 85)%Z with (2 ^ 84 + 2 ^ 84)%Z. assert (2 ^ 20 <= 2 ^ 84)%Z by (vm_compute; discriminate). lia.
Qed.

(* ------------------------------------------------------------------ *)
(** * JACCARD                                                          *)
Lemma lbub_J : lbub_total "JACCARD".
Proof.
intros t n Henv Hn. destruct (env_t_R t Henv) as [Ht HT].
destruct (size_nn n Hn) as [Hfn Hvn].
(* lower bound: ceil(round(t * n, 4)) *)
destruct (fmul_nn t (f_of_Z n) 20 Ht Hfn) as [L1 L2]; [lia | |].
{ pose proof (mul_bounds (FR t) (FR (f_of_Z n)) 0 1 0 (bpow radix2 20)). lra. }
destruct (ceil_total (xlbJ t n) 20 L1) as [lb Hlb]; [lia | exact L2 |].
(* upper bound: floor(round(n / t, 4)) *)
destruct (fdiv_nn (f_of_Z n) t 50 Hfn Ht) as [U1 U2]; [lra | lia | |].
{ apply div_bounds; [lra|]. lit 20%Z. lit 50%Z. lra. }
destruct (floor_total_bound (xubJ t n) 50 U1) as (ub & Hub & Hubb); [lia | exact U2 |].
exists lb, ub. split; [|split].
- rewrite lbZ_J_eq, Hlb. reflexivity.
- rewrite ubZ_J_eq by (apply fin_pos_nz; [exact Ht | lra]). rewrite Hub. reflexivity.
- unfold UB. assert (2 ^ (50 + 2) <= 2 ^ 84)%Z by (vm_compute; discriminate). lia.
Qed.

Lemma ot_J : ot_total "JACCARD".
Proof.
intros t q a b Henv Ha Hb. destruct (env_t_R t Henv) as [Ht HT].
destruct (f_of_size 1) as [Hf1 Hv1]. { lia. }
destruct (fadd_pos (f_of_Z 1) t Hf1 Ht) as [D1 D2]. { rewrite Hv1. unfold B100. lra. }
rewrite Hv1 in D2.
assert (HY : 1 <= FR (fadd (f_of_Z 1) t) <= 2).
{ rewrite D2. split.
  - apply Rle_trans with (RN 1); [rewrite ArithC.RN_1; lra | apply RN_le; lra].
  - apply Rle_trans with (RN 2); [apply RN_le; lra | rewrite ArithD.RN_2; lra]. }
destruct (fdiv_nn t (fadd (f_of_Z 1) t) 0 Ht D1) as [W1 W2]; [lra | lia | |].
{ change (bpow radix2 0) with 1. apply div_bounds; lra. }
change (bpow radix2 0) with 1 in W2.
destruct (sum_nn a b Ha Hb) as [S1 S2].
destruct (fmul_nn (fdiv t (fadd (f_of_Z 1) t)) (f_of_Z (a + b)) 85 W1 S1) as [V1 V2]; [lia | |].
{ pose proof (mul_bounds (FR (fdiv t (fadd (f_of_Z 1) t))) (FR (f_of_Z (a + b))) 0 1 0 (bpow radix2 85)). lra. }
destruct (ceil_total (xotJ t a b) 85 V1) as [al Hal]; [lia | exact V2 |].
exists al. rewrite otZ_J_eq by (apply fin_pos_nz; [exact D1 | lra]). rewrite Hal. reflexivity.
Qed.

(* ------------------------------------------------------------------ *)
(** * DICE                                                             *)
Lemma lbub_D : lbub_total "DICE".
Proof.
intros t n Henv Hn. destruct (env_t_R t Henv) as [Ht HT].
destruct (size_nn n Hn) as [Hfn Hvn].
destruct (eD_spec t Henv) as (E1 & E2 & E3).
destruct (D_E (FR t) _ HT eq_refl) as (_ & HE & _). rewrite <- E2 in HE.
(* lower bound: ceil(round(t / (2 - t) * n, 4)) *)
destruct (fdiv_nn t (eD t) 0 Ht E1) as [Y1 Y2]; [lra | lia | |].
{ change (bpow radix2 0) with 1. apply div_bounds; lra. }
change (bpow radix2 0) with 1 in Y2.
destruct (fmul_nn (fdiv t (eD t)) (f_of_Z n) 20 Y1 Hfn) as [L1 L2]; [lia | |].
{ pose proof (mul_bounds (FR (fdiv t (eD t))) (FR (f_of_Z n)) 0 1 0 (bpow radix2 20)). lra. }
destruct (ceil_total (xlbD t n) 20 L1) as [lb Hlb]; [lia | exact L2 |].
(* upper bound: floor(round((2 - t) / t * n, 4)) *)
destruct (fdiv_nn (eD t) t 31 E1 Ht) as [Z1 Z2]; [lra | lia | |].
{ apply div_bounds; [lra|]. lit 31%Z. lra. }
destruct (fmul_nn (fdiv (eD t) t) (f_of_Z n) 51 Z1 Hfn) as [U1 U2]; [lia | |].
{ pose proof (mul_bounds (FR (fdiv (eD t) t)) (FR (f_of_Z n)) 0 (bpow radix2 31) 0 (bpow radix2 20)).
  replace (bpow radix2 51) with (bpow radix2 31 * bpow radix2 20) by (rewrite <- bpow_plus; reflexivity).
  lra. }
destruct (floor_total_bound (xubD t n) 51 U1) as (ub & Hub & Hubb); [lia | exact U2 |].
exists lb, ub. split; [|split].
- rewrite lbZ_D_eq by exact E3. rewrite Hlb. reflexivity.
- rewrite ubZ_D_eq by (apply fin_pos_nz; [exact Ht | lra]). rewrite Hub. reflexivity.
- unfold UB. assert (2 ^ (51 + 2) <= 2 ^ 84)%Z by (vm_compute; discriminate). lia.
Qed.

Lemma ot_D : ot_total "DICE".
Proof.
intros t q a b Henv Ha Hb. destruct (env_t_R t Henv) as [Ht HT].
destruct (f_of_size 2) as [Hf2 Hv2]. { lia. }
destruct (fdiv_nn t (f_of_Z 2) 0 Ht Hf2) as [W1 W2]; [lra | lia | |].
{ change (bpow radix2 0) with 1. rewrite Hv2. apply div_bounds; lra. }
change (bpow radix2 0) with 1 in W2.
destruct (sum_nn a b Ha Hb) as [S1 S2].
destruct (fmul_nn (fdiv t (f_of_Z 2)) (f_of_Z (a + b)) 85 W1 S1) as [V1 V2]; [lia | |].
{ pose proof (mul_bounds (FR (fdiv t (f_of_Z 2))) (FR (f_of_Z (a + b))) 0 1 0 (bpow radix2 85)). lra. }
destruct (ceil_total (xotD t a b) 85 V1) as [al Hal]; [lia | exact V2 |].
exists al. rewrite otZ_D_eq, Hal. reflexivity.
Qed.

(* ------------------------------------------------------------------ *)
(** * COSINE                                                           *)
Lemma lbub_C : lbub_total "COSINE".
Proof.
intros t n Henv Hn. destruct (env_t_R t Henv) as [Ht HT].
destruct (size_nn n Hn) as [Hfn Hvn].
destruct (qC_spec t Henv) as (Q1 & Q2 & Q3).
destruct (C_q (FR t) _ HT eq_refl) as (_ & HQ & _). rewrite <- Q2 in HQ.
(* lower bound: ceil(round(t * t * n, 4)) *)
destruct (fmul_nn (qC t) (f_of_Z n) 20 Q1 Hfn) as [L1 L2]; [lia | |].
{ assert (0 <= FR (qC t)) by lra.
  pose proof (mul_bounds (FR (qC t)) (FR (f_of_Z n)) 0 1 0 (bpow radix2 20)). lra. }
destruct (ceil_total (xlbC t n) 20 L1) as [lb Hlb]; [lia | exact L2 |].
(* upper bound: floor(round(n / (t * t), 4)) *)
destruct (fdiv_nn (f_of_Z n) (qC t) 81 Hfn Q1) as [U1 U2]; [lra | lia | |].
{ apply div_bounds; [lra|]. lit 20%Z. lit 81%Z. lra. }
destruct (floor_total_bound (xubC t n) 81 U1) as (ub & Hub & Hubb); [lia | exact U2 |].
exists lb, ub. split; [|split].
- rewrite lbZ_C_eq, Hlb. reflexivity.
- rewrite ubZ_C_eq by exact Q3. rewrite Hub. reflexivity.
- unfold UB. assert (2 ^ (81 + 2) <= 2 ^ 84)%Z by (vm_compute; discriminate). lia.
Qed.

Lemma ot_C : ot_total "COSINE".
Proof.
intros t q a b Henv Ha Hb. destruct (env_t_R t Henv) as [Ht HT].
assert (Hab : (0 <= a * b <= 2 ^ 104)%Z).
{ unfold UB, size_bound in *. split; [lia|].
  change (2 ^ 104)%Z with (2 ^ 84 * 2 ^ 20)%Z. apply Z.mul_le_mono_nonneg; lia. }
destruct (f_of_Z_nn (a * b) 104) as (P1 & P2 & P3); [lia | exact Hab |].
(* sqrt(a * b) is a finite nonnegative double <= 2^52 *)
assert (HS : fin (fsqrt (f_of_Z (a * b))) /\ 0 <= FR (fsqrt (f_of_Z (a * b))) <= bpow radix2 52 /\
             f_is_nan (f_of_Z (a * b)) = false /\ f_sign (f_of_Z (a * b)) = false).
{ destruct (Z.eq_dec (a * b) 0) as [E|E].
  - rewrite E. split; [split; reflexivity|]. split; [|split; reflexivity].
    replace (FR (fsqrt (f_of_Z 0))) with 0 by (unfold FR; vm_compute; reflexivity).
    split; [lra | apply bpow_ge_0].
  - assert (H1 : 1 <= FR (f_of_Z (a * b))) by (apply P3; lia).
    destruct (fsqrt_spec _ P1) as [F V]; [lra|].
    destruct (fin_pos_shape _ P1) as (G1 & G2 & _); [lra|].
    split; [exact F|]. split; [|split; assumption].
    rewrite V. apply RN_pow_bounds; [lia|]. split; [apply sqrt_pos|].
    rewrite <- (sqrt_bpow radix2 52). apply sqrt_le_1_alt. exact (proj2 P2). }
destruct HS as (S1 & S2 & N1 & N2).
destruct (fmul_nn t (fsqrt (f_of_Z (a * b))) 52 Ht S1) as [V1 V2]; [lia | |].
{ pose proof (mul_bounds (FR t) (FR (fsqrt (f_of_Z (a * b)))) 0 1 0 (bpow radix2 52)). lra. }
destruct (ceil_total (xotC t a b) 52 V1) as [al Hal]; [lia | exact V2 |].
exists al. rewrite otZ_C_eq by assumption. rewrite Hal. reflexivity.
Qed.

(* ------------------------------------------------------------------ *)
(** * formulas_ok for the three set measures                           *)
Open Scope Z_scope.

Lemma formulas_ok_of : forall m, F5_stmt m -> lbub_total m -> ot_total m ->
  forall t q, env_t t = true -> formulas_ok {| fm := m; ft := PFloat t; fq := q |} size_bound.
Proof.
intros m H5 Hlu Hot t q Henv n Hn.
destruct (Hlu t n Henv Hn) as (lb & ub & Hlb & Hub & Hubb).
assert (Hpl : exists k, g_pl {| fm := m; ft := PFloat t; fq := q |} n = PInt k).
{ destruct (Z.eq_dec n 0) as [->|Hn0]; [exists 0; reflexivity|].
  destruct (H5 t q n Henv) as (_ & _ & k & _ & _ & Hk & _); [lia|].
  exists k. apply toZ_PInt. exact Hk. }
destruct Hpl as [k Hk].
exists lb, ub, k. split; [apply toZ_PInt; exact Hlb|]. split; [apply toZ_PInt; exact Hub|].
split; [exact Hk|].
intros s Hs0 Hs. destruct (Hot t q s n Henv) as [al Hal]; [lia | exact Hn |].
unfold g_ot. cbn [fm ft fq]. rewrite (toZ_PInt _ _ Hal). discriminate.
Qed.

Theorem formulas_ok_jcd : forall m t q, is_jcd m = true -> env_t t = true ->
  formulas_ok {| fm := m; ft := PFloat t; fq := q |} size_bound.
Proof.
intros m t q Hm Henv.
assert (Hc : m = "JACCARD"%string \/ m = "COSINE"%string \/ m = "DICE"%string).
{ unfold is_jcd in Hm. apply orb_true_iff in Hm. destruct Hm as [Hm|Hm].
  - apply orb_true_iff in Hm. destruct Hm as [Hm|Hm]; apply String.eqb_eq in Hm; auto.
  - apply String.eqb_eq in Hm. auto. }
destruct Hc as [-> | [-> | ->]].
- apply formulas_ok_of; [apply F5_J | apply lbub_J | apply ot_J | exact Henv].
- apply formulas_ok_of; [apply F5_C | apply lbub_C | apply ot_C | exact Henv].
- apply formulas_ok_of; [apply F5_D | apply lbub_D | apply ot_D | exact Henv].
Qed.

(* ------------------------------------------------------------------ *)
(** * end-to-end candidate theorems for JACCARD / COSINE / DICE        *)
Section JCD.
  Variables (lattr rattr smt : pyval) (tokenize : pyval -> pyval) (tk : nat -> pyval -> list Z).
  Variables (lrows rrows : list pyval).
  Variables (m : string) (t : f64) (q : Z).
  Hypothesis Htk : tables_tokenized lattr rattr tokenize tk lrows rrows.
  Hypothesis Hcells : cells_ok lattr lrows.
  Hypothesis Hm : is_jcd m = true.
  Hypothesis Ht : env_t t = true.
  Hypothesis Hlsize : forall r, In r lrows -> len (tk 0%nat r) < size_bound.

  Let p := {| fm := m; ft := PFloat t; fq := q |}.
  Let ordering := join_ordering lattr rattr smt tokenize lrows rrows.
  Let all := join_all tk lrows rrows.

  (* set_sim_join: PositionIndex on the left table, PositionFilter.find_candidates per right row;
     `0 < value` is exactly the test `pos_cand ... > 0` of Model/Joins.ssj_pair *)
  Theorem position_candidates_jcd : forall (ce ct : bool) (y : pyval),
    In y rrows -> len (tk 1%nat y) < size_bound ->
    exists index size_cache mn mx ret cands,
      position_index_build (PList lrows) lattr (PStr m) (PFloat t) ordering (PBool ce) (PBool ct)
                           (PInt q) tokenize
        = PTuple [index; size_cache; PInt mn; PInt mx; ret] /\
      position_filter_find_candidates (PStr m) (PFloat t)
        (order_using_token_ordering (tokenize (py_getitem y rattr)) ordering)
        index size_cache (PInt mn) (PInt mx) (PInt q) = cands /\
      forall c, (c < List.length lrows)%nat ->
        (0 < dict_val cands (Z.of_nat c) <->
         exists v, pos_cand p (order all (tk 0%nat (nth c lrows PNone))) (order all (tk 1%nat y)) = Some v
                   /\ 0 < v).
  Proof.
    intros ce ct y Hy Hys.
    exact (position_candidates_end_to_end lattr rattr smt tokenize tk lrows rrows Htk p size_bound
             (formulas_ok_jcd m t q Hm Ht) Hcells Hlsize ce ct y Hy Hys).
  Qed.

  (* the dict itself: distinct keys among the left row positions, value = pos_cand *)
  Theorem position_candidates_jcd_full : forall (ce ct : bool) (y : pyval),
    In y rrows -> len (tk 1%nat y) < size_bound ->
    exists index size_cache mn mx ret d,
      position_index_build (PList lrows) lattr (PStr m) (PFloat t) ordering (PBool ce) (PBool ct)
                           (PInt q) tokenize
        = PTuple [index; size_cache; PInt mn; PInt mx; ret] /\
      position_filter_find_candidates (PStr m) (PFloat t)
        (order_using_token_ordering (tokenize (py_getitem y rattr)) ordering)
        index size_cache (PInt mn) (PInt mx) (PInt q) = PDict (drepr PInt d) /\
      NoDup (map fst d) /\
      (forall c, In c (map fst d) -> 0 <= c < Z.of_nat (List.length lrows)) /\
      forall c, (c < List.length lrows)%nat ->
        pos_cand p (order all (tk 0%nat (nth c lrows PNone))) (order all (tk 1%nat y))
        = Some (dict_val (PDict (drepr PInt d)) (Z.of_nat c)).
  Proof.
    intros ce ct y Hy Hys.
    exact (position_candidates_end_to_end_full lattr rattr smt tokenize tk lrows rrows Htk p size_bound
             (formulas_ok_jcd m t q Hm Ht) Hcells Hlsize ce ct y Hy Hys).
  Qed.

  (* the per-pair step of Model/Joins.set_sim_join_core, decided by the generated candidate dict *)
  Theorem ssj_pair_jcd : forall (ce ct : bool) (y : pyval) (op : string),
    In y rrows -> len (tk 1%nat y) < size_bound ->
    exists index size_cache mn mx ret cands,
      position_index_build (PList lrows) lattr (PStr m) (PFloat t) ordering (PBool ce) (PBool ct)
                           (PInt q) tokenize
        = PTuple [index; size_cache; PInt mn; PInt mx; ret] /\
      position_filter_find_candidates (PStr m) (PFloat t)
        (order_using_token_ordering (tokenize (py_getitem y rattr)) ordering)
        index size_cache (PInt mn) (PInt mx) (PInt q) = cands /\
      forall c, (c < List.length lrows)%nat ->
        let x := order all (tk 0%nat (nth c lrows PNone)) in
        let Y := order all (tk 1%nat y) in
        ssj_pair p op x Y
        = if 0 <? dict_val cands (Z.of_nat c)
          then let s := PFloat (f_round_nd (sim_tok m x Y) 4) in
               if cmp_op op s (PFloat t) then Some [s] else Some []
          else Some [].
  Proof.
    intros ce ct y op Hy Hys.
    exact (ssj_pair_end_to_end lattr rattr smt tokenize tk lrows rrows Htk p size_bound
             (formulas_ok_jcd m t q Hm Ht) Hcells Hlsize ce ct y op Hy Hys).
  Qed.

  Theorem prefix_candidates_jcd : forall (ce : bool) (y : pyval),
    In y rrows -> len (tk 1%nat y) < size_bound ->
    exists index ret d,
      prefix_index_build (PList lrows) lattr (PStr m) (PFloat t) ordering (PBool ce) (PInt q) tokenize
        = PTuple [index; ret] /\
      prefix_filter_find_candidates (PStr m) (PFloat t)
        (order_using_token_ordering (tokenize (py_getitem y rattr)) ordering) index (PInt q)
        = srepr d /\
      NoDup (map fst d) /\
      forall c, (c < List.length lrows)%nat ->
        prefix_cand p (order all (tk 0%nat (nth c lrows PNone))) (order all (tk 1%nat y))
        = Some (smem d (Z.of_nat c)).
  Proof.
    intros ce y Hy Hys.
    exact (prefix_candidates_end_to_end lattr rattr smt tokenize tk lrows rrows Htk p size_bound
             (formulas_ok_jcd m t q Hm Ht) Hcells Hlsize ce y Hy Hys).
  Qed.

  Theorem size_candidates_jcd : forall (ce : bool) (y : pyval),
    In y rrows -> len (tk 1%nat y) < size_bound ->
    exists index mn mx ret d,
      size_index_build (PList lrows) lattr (PBool ce) tokenize = PTuple [index; PInt mn; PInt mx; ret] /\
      size_filter_find_candidates (PStr m) (PFloat t) (py_len (tokenize (py_getitem y rattr)))
                                  index (PInt mn) (PInt mx) = srepr d /\
      forall c, (c < List.length lrows)%nat ->
        smem d (Z.of_nat c) = size_cand p (len (tk 0%nat (nth c lrows PNone))) (len (tk 1%nat y)) /\
        smem d (Z.of_nat c) = size_cand p (len (order all (tk 0%nat (nth c lrows PNone))))
                                          (len (order all (tk 1%nat y))).
  Proof.
    intros ce y Hy Hys.
    exact (size_candidates_end_to_end lattr rattr tokenize tk lrows rrows Htk p size_bound
             (formulas_ok_jcd m t q Hm Ht) Hcells ce y Hy Hys).
  Qed.
End JCD.

(* ------------------------------------------------------------------ *)
(** * non-vacuity                                                      *)
Definition gx_half : f64 := mkF 1 (-1).          (* 0.5 *)

Example gx_env : env_t gx_half = true.
Proof. vm_compute. reflexivity. Qed.

(* the theorem instantiated on the concrete tables of IndexGlue.v, probe = right row 0 *)
Example gx_position_jaccard :
  let p := {| fm := "JACCARD"; ft := PFloat gx_half; fq := 2 |} in
  let ordering := join_ordering (PInt 0) (PInt 0) (PStr "JACCARD") gx_tok gx_l gx_r in
  let all := join_all gx_tk gx_l gx_r in
  exists index size_cache mn mx ret cands,
    position_index_build (PList gx_l) (PInt 0) (PStr "JACCARD") (PFloat gx_half) ordering
                         (PBool true) (PBool true) (PInt 2) gx_tok
      = PTuple [index; size_cache; PInt mn; PInt mx; ret] /\
    position_filter_find_candidates (PStr "JACCARD") (PFloat gx_half)
      (order_using_token_ordering (gx_tok (py_getitem (PTuple [PInt 1]) (PInt 0))) ordering)
      index size_cache (PInt mn) (PInt mx) (PInt 2) = cands /\
    forall c, (c < 3)%nat ->
      (0 < dict_val cands (Z.of_nat c) <->
       exists v, pos_cand p (order all (gx_tk 0%nat (nth c gx_l PNone)))
                          (order all (gx_tk 1%nat (PTuple [PInt 1]))) = Some v /\ 0 < v).
Proof.
  apply (position_candidates_jcd (PInt 0) (PInt 0) (PStr "JACCARD") gx_tok gx_tk gx_l gx_r
           "JACCARD" gx_half 2 gx_tokenized gx_cells eq_refl gx_env).
  - intros r Hr. cbn in Hr. repeat (destruct Hr as [<-|Hr]; [reflexivity|]). destruct Hr.
  - left. reflexivity.
  - reflexivity.
Qed.

(* ... and what the generated code and the model compute there: right row 0 has tokens {1,2};
   left rows {1,2}, {5,6}, {2,3}; Jaccard 0.5: rows 0 (J = 1) and 2 (J = 1/3) share a prefix
   token, row 2 is then pruned by the position filter (value -1), row 1 is never touched *)
Example gx_position_jaccard_values :
  let p := {| fm := "JACCARD"; ft := PFloat gx_half; fq := 2 |} in
  let ordering := join_ordering (PInt 0) (PInt 0) (PStr "JACCARD") gx_tok gx_l gx_r in
  let all := join_all gx_tk gx_l gx_r in
  let y := order all (gx_tk 1%nat (PTuple [PInt 1])) in
  match position_index_build (PList gx_l) (PInt 0) (PStr "JACCARD") (PFloat gx_half) ordering
                             (PBool true) (PBool true) (PInt 2) gx_tok with
  | PTuple [index; size_cache; mn; mx; _] =>
      let cands := position_filter_find_candidates (PStr "JACCARD") (PFloat gx_half)
                     (order_using_token_ordering (gx_tok (py_getitem (PTuple [PInt 1]) (PInt 0))) ordering)
                     index size_cache mn mx (PInt 2) in
      map (dict_val cands) [0; 1; 2]
  | _ => []
  end = [2; 0; -1] /\
  map (fun c => pos_cand p (order all (gx_tk 0%nat (nth c gx_l PNone))) y) [0; 1; 2]%nat
  = [Some 2; Some 0; Some (-1)].
Proof. split; vm_compute; reflexivity. Qed.

Example gx_formulas_half :
  let p := {| fm := "COSINE"; ft := PFloat gx_half; fq := 2 |} in
  (g_lb p 0, g_ub p 0, g_pl p 0, g_ot p 0 0) = (PInt 0, PInt 0, PInt 0, PInt 0) /\
  (g_lb p 8, g_ub p 8, g_pl p 8, g_ot p 32 8) = (PInt 2, PInt 32, PInt 7, PInt 8).
Proof. split; vm_compute; reflexivity. Qed.

Print Assumptions formulas_ok_jcd.
Print Assumptions position_candidates_jcd.
Print Assumptions position_candidates_jcd_full.
Print Assumptions ssj_pair_jcd.
Print Assumptions prefix_candidates_jcd.
Print Assumptions size_candidates_jcd.
