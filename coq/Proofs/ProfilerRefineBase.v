(* Evaluation lemmas for the refinement of the GENERATED profiler (Gen/ProfilerGen.v):
   float(n) is not 0.0 for 0 < n < 2^53 (axiom-free, on SpecFloat directly), the percentage expression,
   _format_statistic, sum(pd.isnull(S)), len(S.dropna().unique()) and the `+= 1` for the missing value,
   the validation loop, the output frame; and the rendering of the
   model's rows (Model/Profiler.v) as the value the generated function returns.
   Lists / Z / SpecFloat computation only: axiom-free.                                          *)
From Coq Require Import ZArith Bool List String SpecFloat Lia.
From SSJ Require Import F64 PyNum LawsCanon Frame ProfFrame Profiler ValidationGen ProfilerGen
     Projection ProjectionFacts WrapperRefineFrame IndexPyFacts ProfilerRefineUniq.
Import ListNotations.
Open Scope string_scope.
Open Scope Z_scope.

(* ------------------------------------------------------------------ float(n) <> 0.0 *)
Lemma digits2_shift k p : digits2_pos (shift_pos k p) = (digits2_pos p + k)%positive.
Proof.
  unfold shift_pos. revert p. induction k using Pos.peano_ind; intros p.
  - cbn. lia.
  - rewrite Pos.iter_succ. cbn [digits2_pos]. rewrite IHk. lia.
Qed.

(* binary_round_aux on a mantissa that already has exactly 53 digits: nothing is shifted out *)
Lemma round_aux_53 m e : Z.pos (digits2_pos m) = 53 -> -1074 <= e ->
  f_is_zero (binary_round_aux prec emax false (Z.pos m) e loc_Exact) = false.
Proof.
  intros Hd He. unfold binary_round_aux, shr_fexp.
  cbn [Zdigits2 shr_record_of_loc]. rewrite Hd.
  assert (E : fexp prec emax (53 + e) - e = 0).
  { unfold fexp, emin, prec, emax. lia. }
  rewrite E. cbn [shr shr_m loc_of_shr_record shr_r shr_s round_nearest_even Zdigits2 shr_record_of_loc].
  rewrite Hd, E. cbn [shr shr_m]. destruct (e <=? emax - prec); reflexivity.
Qed.

Lemma f_of_Z_nz n : 0 < n < 2 ^ 53 -> f_is_zero (f_of_Z n) = false.
Proof.
  intros Hn. destruct n as [|p|p]; try lia.
  unfold f_of_Z, binary_normalize, binary_round.
  pose proof (digits2_log2 p) as Hd.
  assert (Hl : Z.log2 (Z.pos p) < 53) by (apply Z.log2_lt_pow2; lia).
  assert (Hl0 : 0 <= Z.log2 (Z.pos p)) by apply Z.log2_nonneg.
  set (d := Z.pos (digits2_pos p)) in *.
  assert (E : fexp prec emax (d + 0) = d - 53) by (unfold fexp, emin, prec, emax; lia).
  rewrite E. unfold shl_align.
  destruct (d - 53 - 0) as [|k|k] eqn:Ek; try lia.
  - apply round_aux_53; [fold d; lia | lia].
  - apply round_aux_53; [|lia]. rewrite digits2_shift. fold d. lia.
Qed.

(* ------------------------------------------------------------------ rendering of the model's rows *)
Definition fmt_stat (sf : f64 -> string) (c : Z) (p : f64) : string :=
  z_str c ++ " (" ++ sf p ++ "%)".

Definition comment_text (sf : f64 -> string) (r : prow) : string :=
  match p_cmt r with
  | CmtNone => ""
  | CmtMissing => "Joining on this attribute will ignore " ++ fmt_stat sf (p_m r) (p_mpct r) ++ " rows."
  | CmtKey => "This attribute can be used as a key attribute."
  end.

(* the three cells of an output row *)
Definition out_cells (sf : f64 -> string) (r : prow) : list pyval :=
  [PStr (fmt_stat sf (p_u r) (p_upct r)); PStr (fmt_stat sf (p_m r) (p_mpct r)); PStr (comment_text sf r)].

Definition out_header : list pyval := [PStr "Unique values"; PStr "Missing values"; PStr "Comments"].

(* pd.DataFrame(rows, columns=['Attribute'] + out_header).set_index('Attribute') *)
Definition render_rows (sf : f64 -> string) (rows : list (string * prow)) : pyval :=
  PTuple [PStr "Attribute"; PList (map (fun ar => PStr (fst ar)) rows);
          frame_val {| fr_cols := out_header; fr_rows := map (fun ar => out_cells sf (snd ar)) rows |}].

(* the 4-tuple appended to profile_output *)
Definition out_record (sf : f64 -> string) (ar : string * prow) : pyval :=
  PTuple (PStr (fst ar) :: out_cells sf (snd ar)).

(* ------------------------------------------------------------------ pieces of the loop body *)
Lemma format_statistic_eval sf c p :
  _format_statistic sf (PInt c) (PFloat p) = PStr (fmt_stat sf c p).
Proof. reflexivity. Qed.

Lemma pct_eval c n : f_is_zero (f_of_Z n) = false ->
  py_round2 (py_mul (py_truediv (py_float (PInt c)) (py_float (PInt n))) (PInt 100)) (PInt 2)
  = PFloat (pct c n).
Proof.
  intros Hz.
  change (py_float (PInt c)) with (PFloat (f_of_Z c)).
  change (py_float (PInt n)) with (PFloat (f_of_Z n)).
  unfold py_truediv, strict2. cbn [num_of to_f]. rewrite Hz. reflexivity.
Qed.

Lemma pct_zero_rows c :
  py_round2 (py_mul (py_truediv (py_float (PInt c)) (py_float (PInt 0))) (PInt 100)) (PInt 2)
  = ZeroDivisionError.
Proof. reflexivity. Qed.

Lemma sum_bools (f : pyval -> bool) l k :
  fold_left py_add (map (fun c => PBool (f c)) l) (PInt k)
  = PInt (k + Z.of_nat (List.length (filter f l))).
Proof.
  revert k. induction l as [|c l IH]; intros k; cbn [map fold_left filter].
  - cbn [List.length]. f_equal. lia.
  - assert (E : py_add (PInt k) (PBool (f c)) = PInt (k + (if f c then 1 else 0))) by reflexivity.
    rewrite E, IH. f_equal. destruct (f c); cbn [List.length]; lia.
Qed.

Lemma isnull_sum_eval cells :
  py_sum (series_isnull (PList cells)) = PInt (Z.of_nat (List.length (filter cell_missing cells))).
Proof. unfold py_sum. cbn [series_isnull py_iter]. rewrite sum_bools. reflexivity. Qed.

Lemma nunique_present_eval cells :
  series_nunique_present (PList cells) = PInt (Z.of_nat (nunique_present cells)).
Proof. reflexivity. Qed.

(* if missing_values > 0: unique_values += 1     (the state of the `if`: exception flag, unique_values) *)
Lemma count_missing_once_eval (b : bool) (u0 : Z) :
  (if py_truth (PBool b)
   then bindx (py_add (PInt u0) (PInt 1)) (fun x_ => (x_, PInt u0)) (fun v_ => (PNone, v_))
   else (PNone, PInt u0))
  = (PNone, PInt (u0 + (if b then 1 else 0))).
Proof. destruct b; cbn [py_truth]; [reflexivity | now rewrite Z.add_0_r]. Qed.

(* the comment strings selected by the two `if`s *)
Lemma comment_eval sf n u m :
  let r := profile_counts n u m in
  PStr (comment_text sf r)
  = (if (u =? n) && (m =? 0) then PStr "This attribute can be used as a key attribute."
     else if 0 <? m
          then PStr ("Joining on this attribute will ignore " ++ fmt_stat sf m (pct m n) ++ " rows.")
          else PStr "").
Proof.
  cbv zeta. unfold comment_text, profile_counts, comment_of. cbn [p_cmt p_m p_mpct].
  destruct ((u =? n) && (m =? 0)); [reflexivity|]. destruct (0 <? m); reflexivity.
Qed.

(* ------------------------------------------------------------------ the validation loop *)
Lemma mem_pv_strs a l : mem_pv (PStr a) (map PStr l) = existsb (String.eqb a) l.
Proof.
  induction l as [|c l IH]; cbn [map mem_pv existsb]; [reflexivity|].
  rewrite IH. change (pv_eqb (PStr c) (PStr a)) with (String.eqb c a). now rewrite String.eqb_sym.
Qed.

Lemma existsb_eqb_In a l : existsb (String.eqb a) l = true <-> In a l.
Proof.
  rewrite existsb_exists. split.
  - intros (x & Hx & E). apply String.eqb_eq in E. now subst.
  - intros H. exists a. split; [exact H | apply String.eqb_refl].
Qed.

Lemma validate_attr_eval a cols l1 l2 :
  validate_attr (PStr a) (py_strs cols) l1 l2
  = if existsb (String.eqb a) cols then PBool true else AssertionError.
Proof.
  unfold validate_attr, py_not_in, py_in, py_strs. cbn [strict2 py_not strict1].
  rewrite mem_pv_strs. destruct (existsb (String.eqb a) cols); reflexivity.
Qed.

(* ------------------------------------------------------------------ the output frame *)
Lemma records_of_tuples (l : list (list pyval)) : records_of (map PTuple l) = Some l.
Proof. induction l as [|r l IH]; cbn [map records_of]; [reflexivity | now rewrite IH]. Qed.

Lemma find_exc_tuples (l : list (list pyval)) : find is_exc (map PTuple l) = None.
Proof. induction l as [|r l IH]; cbn [map find is_exc]; [reflexivity | exact IH]. Qed.

Definition full_header : list pyval :=
  [PStr "Attribute"; PStr "Unique values"; PStr "Missing values"; PStr "Comments"].

Definition records_frame (sf : f64 -> string) (rows : list (string * prow)) : frame :=
  {| fr_cols := full_header; fr_rows := map (fun ar => PStr (fst ar) :: out_cells sf (snd ar)) rows |}.

Lemma records_frame_shaped sf rows :
  shaped (List.length (fr_cols (records_frame sf rows))) (fr_rows (records_frame sf rows)).
Proof. intros r Hr. apply in_map_iff in Hr. destruct Hr as (ar & <- & _). reflexivity. Qed.

Lemma records_frame_eval sf (rows : list (string * prow)) :
  frame_of_records (PList (map (out_record sf) rows)) (PList full_header)
  = frame_val (records_frame sf rows).
Proof.
  unfold frame_of_records.
  change (map (out_record sf) rows)
    with (map (fun ar => PTuple ((fun ar => PStr (fst ar) :: out_cells sf (snd ar)) ar)) rows).
  rewrite <- (map_map (fun ar => PStr (fst ar) :: out_cells sf (snd ar)) PTuple).
  rewrite find_exc_tuples, records_of_tuples.
  unfold frame_make. rewrite rows_of_PList.
  rewrite (shaped_forallb 4); [reflexivity|]. apply (records_frame_shaped sf rows).
Qed.

Lemma set_index_eval sf (rows : list (string * prow)) :
  frame_set_index (frame_val (records_frame sf rows)) (PStr "Attribute") = render_rows sf rows.
Proof.
  unfold frame_set_index. rewrite with_frame_val by apply records_frame_shaped.
  cbn [is_label fr_cols fr_rows records_frame full_header col_pos pv_eqb].
  cbn [String.eqb Ascii.eqb Bool.eqb].
  unfold render_rows. rewrite !map_map. reflexivity.
Qed.

Print Assumptions f_of_Z_nz.
Print Assumptions pct_eval.
Print Assumptions records_frame_eval.
Print Assumptions set_index_eval.
