(* Code-level RELATIONAL property theorems, part 6: C07 (join = filter_tables ; apply_matcher), first half.

   (A) `Stage`: the matcher stage at SPEC level, for an ARBITRARY observed candidate list `cands` that satisfies
       the single-call specifications of a filter_tables call (sound / complete / missing of the EFilter case
       with the same tables, threshold and allow_missing): the list  map (gpS c m) (filter (kpS c m) cands)
       -- keep a candidate iff the comparison holds of the matcher's raw score of the two values its keys name
       (allow_missing if one is missing), report that score -- satisfies pipeline_sound_raw /
       pipeline_complete_raw / missing_spec / typed_scores of Proofs/LawsPipe.v.  (Proofs/ModelPipe.v proves
       this of the model's own candidate list; here nothing is assumed about where `cands` comes from.)
   (B) `C07_code_pipeline_*_partial`: for the GENERATED join wrapper and the GENERATED filter_tables wrapper
       (SizeFilter / PrefixFilter / PositionFilter) called on the same tables, and ANY frame lhsP whose key-level
       view is that list over the view of the filter's frame (`matcher_view_link`, the residual hypothesis:
       discharged for the generated apply_matcher_rows in CodeLevelRel6.v), pipeline_spec holds between the
       view of the join's frame and the view of lhsP.                                                     *)
From Coq Require Import ZArith Bool List String Lia Permutation PeanoNat.
From SSJ Require Import F64 PyNum FilterUtilsGen HelperGen TokenOrderingGen ValidationGen IndexGen JoinGen
     TokenOrdering Measures Filters Joins Api Matcher JoinSpec MetaSpec Projection ProjSpec IndexPyFacts ProjectionFacts
     JoinGenFacts JoinGenLoop JoinRefine JoinRefineProj SplitFacts Frame WrapperGen FilterWrapperGen
     WrapperRefineFrame WrapperRefineMissing WrapperRefineCore WrapperRefineChunks WrapperRefine WrapperRefineClosed
     WrapperRefineApi WrapperRefineEnd WrapperBody WrapperApiLink WrapperEnd
     WrapperRefineOvc FilterWrapperRefineOverlap FilterWrapperRefine
     OrderingFacts OverlapFacts OverlapMeasure ValidationFacts IndexGlue IndexGlueArith
     ApiLift ApiJoinBase ApiJoinPairs ApiJoinSpec PartitionInst
     ApiFilterBase ApiFilterTables ApiFilterJCD ApiFilterClosed
     LawsBase LawsScore LawsSpec Laws LawsPipe ModelScores ModelArith ModelLaws ModelPipe
     CodeLevelBase CodeLevelJoins CodeLevelJoins2 CodeLevelFilters CodeLevelTight CodeLevelRelBase CodeLevelRelCalls CodeLevelRel.
Import ListNotations.
Open Scope string_scope.
Open Scope list_scope.
Open Scope Z_scope.

(* ================================================================== (A) the matcher stage on observed candidates *)
(* the verdict and the reported row of apply_matcher on a candidate, in terms of the rows its keys name *)
Definition kpS (c : jcase) (m : string) (o : Api.out_row) : bool :=
  match find_row (fst (fst o)) (j_L c), find_row (snd (fst o)) (j_R c) with
  | Some l, Some r => if present l && present r
                      then cmp_op (j_op c) (matcher_raw_score m (toks_of l) (toks_of r)) (j_t c)
                      else j_allow_missing c
  | _, _ => false
  end.
Definition gpS (c : jcase) (m : string) (o : Api.out_row) : Api.out_row :=
  (fst o, match find_row (fst (fst o)) (j_L c), find_row (snd (fst o)) (j_R c) with
          | Some l, Some r => if present l && present r then matcher_raw_score m (toks_of l) (toks_of r) else PNone
          | _, _ => PNone
          end).

(* cf is the case of a filter_tables call on the tables / threshold / allow_missing of the join case c *)
Definition filter_of (c cf : jcase) (k : fkind) (m : string) : Prop :=
  j_entry cf = EFilter k m /\ j_t cf = j_t c /\ j_allow_missing cf = j_allow_missing c /\
  j_L cf = j_L c /\ j_R cf = j_R c.

Section Stage.
  Variables (c cf : jcase) (k : fkind) (m : string) (cands : list Api.out_row).
  Hypothesis He : j_entry c = EJoin m.
  Hypothesis Hf : filter_of c cf k m.
  Hypothesis Hmm : LawsSpec.set_measure m = true.
  Hypothesis Hlow : lower_op (j_op c).
  Hypothesis HkL : NoDup (map (@fst Z _) (j_L c)).
  Hypothesis HkR : NoDup (map (@fst Z _) (j_R c)).
  Hypothesis Hws : j_with_score c = true.
  (* the single-call specifications of the filter's observed output *)
  Hypothesis HFs : sound_spec cf cands = true.
  Hypothesis HFc : complete_spec cf cands = true.
  Hypothesis HFm : missing_spec cf cands = true.

  Local Notation outP := (map (gpS c m) (filter (kpS c m) cands)).

  Lemma st_view o : In o cands ->
    exists l r, find_row (fst (fst o)) (j_L c) = Some l /\ find_row (snd (fst o)) (j_R c) = Some r /\
                count_pair (fst (fst o)) (snd (fst o)) cands = 1%nat /\
                (present l && present r = false -> j_allow_missing c = true).
  Proof using Hf HFs.
    destruct Hf as (Ee & Et & Eam & EL & ER).
    intros Ho. destruct o as [[lk rk] s]. unfold sound_spec in HFs. rewrite forallb_forall in HFs.
    specialize (HFs _ Ho). unfold sound_row in HFs. rewrite EL, ER, Eam in HFs. cbn [fst snd].
    destruct (find_row lk (j_L c)) as [l|]; [|discriminate HFs].
    destruct (find_row rk (j_R c)) as [r|]; [|discriminate HFs].
    apply andb_true_iff in HFs. destruct HFs as [Hc Hrest]. apply Nat.eqb_eq in Hc.
    exists l, r. repeat split; try assumption.
    intros Ep. rewrite Ep in Hrest. apply andb_true_iff in Hrest. exact (proj1 Hrest).
  Qed.

  Lemma st_found o l r : find_row (fst (fst o)) (j_L c) = Some l -> find_row (snd (fst o)) (j_R c) = Some r ->
    kpS c m o = (if present l && present r
                 then cmp_op (j_op c) (matcher_raw_score m (toks_of l) (toks_of r)) (j_t c) else j_allow_missing c) /\
    gpS c m o = (fst o, if present l && present r then matcher_raw_score m (toks_of l) (toks_of r) else PNone).
  Proof. intros Hl Hr. unfold kpS, gpS. rewrite Hl, Hr. split; reflexivity. Qed.

  Lemma st_uniq_cands : uniq cands.
  Proof using Hf HFs. apply count_uniq. intros o Ho. destruct (st_view o Ho) as [l [r [_ [_ [H _]]]]]. exact H. Qed.

  (* at most one candidate per pair of rows *)
  Lemma st_cands_length :
    Z.of_nat (List.length cands) <= Z.of_nat (List.length (j_L c)) * Z.of_nat (List.length (j_R c)).
  Proof using Hf HFs.
    rewrite <- Nat2Z.inj_mul. apply Nat2Z.inj_le.
    assert (E1 : List.length (map (@fst Z _) (j_L c)) = List.length (j_L c)) by apply map_length.
    assert (E2 : List.length (map (@fst Z _) (j_R c)) = List.length (j_R c)) by apply map_length.
    assert (E3 : List.length (map okey cands) = List.length cands) by apply map_length.
    rewrite <- E1, <- E2, <- E3, <- prod_length. apply NoDup_incl_length; [exact st_uniq_cands|].
    intros [lk rk] Hin. apply in_map_iff in Hin. destruct Hin as [o [Eo Ho]].
    destruct (st_view o Ho) as [l [r [Hl [Hr _]]]]. unfold okey in Eo.
    destruct (find_row_some _ _ _ Hl) as [Il El]. destruct (find_row_some _ _ _ Hr) as [Ir Er].
    destruct o as [[a b] s]. cbn [fst snd] in *. injection Eo as <- <-.
    apply in_prod; apply in_map_iff; eauto.
  Qed.

  Lemma st_gp_key o : fst (gpS c m o) = fst o.
  Proof. reflexivity. Qed.

  Lemma st_uniq_out : uniq outP.
  Proof using Hf HFs.
    unfold uniq. replace (keys outP) with (keys (filter (kpS c m) cands)).
    - apply uniq_filter. exact st_uniq_cands.
    - unfold keys, okey. rewrite map_map. reflexivity.
  Qed.

  Lemma st_out_In o' : In o' outP <-> exists o, In o cands /\ kpS c m o = true /\ o' = gpS c m o.
  Proof.
    rewrite in_map_iff. split.
    - intros [o [E Ho]]. apply filter_In in Ho. exists o. intuition.
    - intros [o [Ho [Hkp E]]]. exists o. split; [symmetry; exact E | apply filter_In; tauto].
  Qed.

  Theorem st_sound_raw : pipeline_sound_raw c outP = true.
  Proof using He Hf Hmm Hlow Hws HFs.
    unfold pipeline_sound_raw. apply forallb_forall. intros o' Ho'.
    pose proof (uniq_count outP o' st_uniq_out Ho') as Hcnt.
    apply st_out_In in Ho'. destruct Ho' as [o [Ho [Hkp ->]]].
    destruct (st_view o Ho) as [l [r [Hl [Hr [_ Ham]]]]].
    destruct (st_found o l r Hl Hr) as [Ekp Egp].
    unfold pipe_row. rewrite Egp in *. cbn [fst snd] in Hcnt |- *. rewrite Hl, Hr, Hcnt. cbn [Nat.eqb andb].
    rewrite Ekp in Hkp. destruct (present l && present r) eqn:Ep.
    - destruct (both_empty l r); [reflexivity|]. rewrite He, Hkp. cbn [andb].
      pose proof (matcher_raw_shape m (toks_of l) (toks_of r) Hmm) as S.
      destruct (String.eqb m "OVERLAP").
      + rewrite S. apply ApiJoinPairs.score_same_int.
      + destruct S as [[f Ef]|[e Ee]]; rewrite ?Ef, ?Ee in *.
        * exact (cmp_true_same_float _ _ _ Hlow Hkp).
        * rewrite (cmp_exc_false _ _ _ Hlow) in Hkp. discriminate.
    - rewrite (Ham eq_refl). reflexivity.
  Qed.

  Theorem st_complete_raw : pipeline_complete_raw c outP = true.
  Proof using He Hf Hmm Hlow HkL HkR HFc.
    destruct Hf as (Ee & Et & Eam & EL & ER).
    unfold pipeline_complete_raw, forall_pairs. apply forallb_forall. intros l Hl.
    apply forallb_forall. intros r Hr.
    destruct (present l && present r) eqn:Ep; [|reflexivity].
    destruct (both_empty l r) eqn:Eb; [reflexivity|]. rewrite He.
    destruct (qualifies m (j_op c) (j_t c) (toks_of l) (toks_of r)) eqn:Eq; [|reflexivity].
    destruct (cmp_op (j_op c) (matcher_raw_score m (toks_of l) (toks_of r)) (j_t c)) eqn:Em; [|reflexivity].
    cbn [andb].
    pose proof HFc as Hc. unfold complete_spec in Hc. rewrite EL, ER, Ee, Et in Hc.
    rewrite forallb_forall in Hc. specialize (Hc l Hl).
    rewrite forallb_forall in Hc. specialize (Hc r Hr).
    rewrite Ep in Hc. cbv zeta in Hc. unfold both_empty in Eb. rewrite Eb in Hc.
    assert (Hned : String.eqb m "EDIT_DISTANCE" = false) by (apply LawsSpec.set_measure_not_ed; exact Hmm).
    rewrite Hned, (qualifies_lower_ge m (j_op c) (j_t c) _ _ Hmm Hlow Eq) in Hc.
    apply LawsBase.has_pair_In in Hc. destruct Hc as [s0 Ho].
    assert (Hfl : find_row (fst l) (j_L c) = Some l) by (apply find_row_unique; auto).
    assert (Hfr : find_row (fst r) (j_R c) = Some r) by (apply find_row_unique; auto).
    destruct (st_found (fst l, fst r, s0) l r Hfl Hfr) as [Ekp Egp].
    rewrite Ep in Ekp, Egp. rewrite Em in Ekp.
    apply LawsBase.has_pair_In. eexists. apply st_out_In. exists (fst l, fst r, s0).
    split; [exact Ho|]. split; [exact Ekp|]. rewrite Egp. reflexivity.
  Qed.

  Theorem st_missing : missing_spec c outP = true.
  Proof using Hf HkL HkR HFm.
    destruct Hf as (Ee & Et & Eam & EL & ER).
    pose proof HFm as Hm. unfold missing_spec, forall_pairs in *. rewrite EL, ER, Eam in Hm.
    apply forallb_forall. intros l Hl. apply forallb_forall. intros r Hr.
    rewrite forallb_forall in Hm. specialize (Hm l Hl). rewrite forallb_forall in Hm. specialize (Hm r Hr).
    destruct (present l && present r) eqn:Ep; [reflexivity|].
    apply Nat.eqb_eq in Hm. apply Nat.eqb_eq.
    rewrite (count_pair_map_keys (gpS c m) _ _ _ st_gp_key).
    pose proof (count_pair_filter_le (kpS c m) (fst l) (fst r) cands) as Hle.
    destruct (j_allow_missing c) eqn:Eam'; [|lia].
    assert (0 < count_pair (fst l) (fst r) (filter (kpS c m) cands))%nat; [|lia].
    apply count_pair_has. apply LawsBase.has_pair_In.
    assert (has_pair (fst l) (fst r) cands = true) as Hh by (apply count_pair_has; lia).
    apply LawsBase.has_pair_In in Hh. destruct Hh as [s0 Ho]. exists s0. apply filter_In. split; [exact Ho|].
    assert (Hfl : find_row (fst l) (j_L c) = Some l) by (apply find_row_unique; auto).
    assert (Hfr : find_row (fst r) (j_R c) = Some r) by (apply find_row_unique; auto).
    destruct (st_found (fst l, fst r, s0) l r Hfl Hfr) as [Ekp _].
    rewrite Ep, Eam' in Ekp. exact Ekp.
  Qed.

  Theorem st_typed : typed_scores c outP = true.
  Proof using He Hf Hmm Hlow HFs.
    unfold typed_scores. apply forallb_forall. intros o' Ho'.
    apply st_out_In in Ho'. destruct Ho' as [o [Ho [Hkp ->]]].
    destruct (st_view o Ho) as [l [r [Hl [Hr _]]]].
    destruct (st_found o l r Hl Hr) as [Ekp Egp]. rewrite Egp. cbn [snd].
    rewrite Ekp in Hkp. rewrite (int_case_join c m He).
    destruct (present l && present r); [|reflexivity].
    pose proof (matcher_raw_shape m (toks_of l) (toks_of r) Hmm) as S.
    destruct (String.eqb m "OVERLAP").
    - rewrite S. reflexivity.
    - destruct S as [[f ->]|[e Ee]]; [reflexivity|].
      rewrite Ee, (cmp_exc_false _ _ _ Hlow) in Hkp. discriminate.
  Qed.

  (* the four facts pipeline_law asks of the pipeline's output *)
  Theorem stage_facts :
    pipeline_sound_raw c outP = true /\ pipeline_complete_raw c outP = true /\
    missing_spec c outP = true /\ typed_scores c outP = true.
  Proof using All.
    split; [exact st_sound_raw|]. split; [exact st_complete_raw|]. split; [exact st_missing | exact st_typed].
  Qed.
End Stage.

(* the pipeline law for an observed join output and the matcher stage over observed candidates *)
Theorem stage_pipeline_law c cf k m obsJ cands :
  j_entry c = EJoin m -> filter_of c cf k m -> LawsSpec.set_measure m = true -> lower_op (j_op c) ->
  NoDup (map (@fst Z _) (j_L c)) -> NoDup (map (@fst Z _) (j_R c)) -> j_with_score c = true ->
  sound_spec cf cands = true -> complete_spec cf cands = true -> missing_spec cf cands = true ->
  complete_spec c obsJ = true -> sound_spec c obsJ = true -> missing_spec c obsJ = true -> typed_scores c obsJ = true ->
  round_agrees_rows c m ->
  pipeline_spec c obsJ (map (gpS c m) (filter (kpS c m) cands)) = true.
Proof.
  intros He Hf Hmm Hlow HkL HkR Hws HFs HFc HFm HJc HJs HJm HJt Hr.
  destruct (stage_facts c cf k m cands He Hf Hmm Hlow HkL HkR Hws HFs HFc HFm) as (P1 & P2 & P3 & P4).
  exact (pipeline_law_rows c m obsJ _ He Hmm Hws P1 P2 P3 P4 HJc HJs HJm HJt Hr).
Qed.

(* ================================================================== (B) the generated join and filter wrappers *)
(* the projection case of the filter_tables call: the same tables and attributes, no score column *)
Definition noscore_pcase (c : pcase) : pcase :=
  {| p_lcols := p_lcols c; p_rcols := p_rcols c; p_lkey := p_lkey c; p_rkey := p_rkey c;
     p_ljoin := p_ljoin c; p_rjoin := p_rjoin c; p_lout := p_lout c; p_rout := p_rout c;
     p_lpre := p_lpre c; p_rpre := p_rpre c; p_score := false |}.

(* the residual link: the key-level view of the frame lhsP is the matcher stage over the view of the filter's frame *)
Definition matcher_view_link (cM cF : pcase) (kz : pyval -> Z) (jc : jcase) (m : string) (lhsF lhsP : pyval) : Prop :=
  code_view cM kz lhsP = map (gpS jc m) (filter (kpS jc m) (code_view cF kz lhsF)).

Lemma mv_header_noscore c a : In a (mv_header (noscore_pcase c)) -> In a (mv_header c).
Proof.
  unfold mv_header. cbn [noscore_pcase p_lpre p_rpre p_lkey p_rkey p_lout p_rout p_score].
  intros [H|[H|H]]; [left; exact H | right; left; exact H | right; right].
  apply in_app_or in H. apply in_or_app. destruct H as [H|H]; [left; exact H | right].
  apply in_app_or in H. apply in_or_app. destruct H as [H|[]]. left. exact H.
Qed.

Lemma well_formed_noscore c : well_formed c -> well_formed (noscore_pcase c).
Proof. intros [H1 H2 H3 H4 H5 H6]. constructor; assumption. Qed.

Lemma kview_four_specs c kz jc lhs : code_result_kview c kz lhs (four_specs jc) -> four_specs jc (code_view c kz lhs).
Proof. intros (rows & -> & H). rewrite code_view_sframe. exact H. Qed.

Section PipelineJcd.
  Variables (c cM : pcase) (m : string) (t : f64) (q : Z) (op : string) (ae am : bool).
  Variables (njJ cpJ njF cpF : Z) (k : fkind) (aeF : bool).
  Variables (lsrc rsrc : list (list pyval)) (showpJ showpF : pyval).
  Variables (tokenize : pyval -> pyval) (sim_fn : pyval -> pyval -> pyval).
  Variables (toks : pyval -> list Z) (cf : pyval -> pyval -> pyval) (kz : pyval -> Z).

  Let p : fparams := {| fm := m; ft := PFloat t; fq := q |}.
  Let cF : pcase := noscore_pcase c.

  (* the join call (the hypotheses of C01_C02_code_*_tight) *)
  Hypothesis HJ : jcd_call_hyps c p op lsrc rsrc tokenize sim_fn toks cf kz.
  Hypothesis Hsc : p_score c = true.
  (* the filter_tables call on the same tables / attributes without score column: of the hypotheses of
     C04_code_filter_tables_jcd only the bound on the whole right table is not among those of the join call *)
  Hypothesis Hk : k3 k.
  Hypothesis HlenRt : Z.of_nat (List.length rsrc) < 2^31.

  Definition jcd_filter_frame : pyval := flt_call cF p aeF am njF cpF lsrc rsrc showpF tokenize k.
  Definition jcd_join_frame : pyval := jcd_wrapper_call c p op ae am njJ cpJ lsrc rsrc showpJ tokenize sim_fn.

  Theorem C07_code_pipeline_jcd_partial lhsP :
    matcher_view_link cM cF kz (jcd_jcase c p op ae am njJ cpJ lsrc rsrc toks kz) m jcd_filter_frame lhsP ->
    pipeline_spec (jcd_jcase c p op ae am njJ cpJ lsrc rsrc toks kz)
      (code_view c kz jcd_join_frame) (code_view cM kz lhsP) = true.
  Proof using All.
    intros Hlink. unfold matcher_view_link in Hlink. rewrite Hlink. clear Hlink.
    pose proof (jcd_call_valid c p op ae am njJ cpJ lsrc rsrc tokenize sim_fn toks cf kz HJ) as Hv.
    destruct (weak_keys _ Hv) as (NL & NR).
    destruct (proj1 (jcd_call_facts c p op ae am njJ cpJ lsrc rsrc showpJ tokenize sim_fn toks cf kz HJ))
      as (_ & _ & A1 & A2 & A3 & _ & A5 & _).
    destruct HJ as ((Hwf & Hl & Hr & HtL & HtR & Hm & Hvt & Hvop & Hvout & Hop & Hid) & Hn & Hsim & Hthr & Hkeys & Hset).
    assert (Hj : is_jcd m = true) by exact (set_measure_jcd m Hm).
    assert (Henv : env_t t = true).
    { destruct Hthr as (t' & Et & Henv). injection Et as <-. exact Henv. }
    (* the filter's frame *)
    assert (HidF : ~ In "_id" (mv_header cF)) by (intros X; apply Hid; exact (mv_header_noscore c "_id" X)).
    pose proof (C04_code_filter_tables_jcd cF op aeF am njF cpF lsrc rsrc showpF tokenize toks kz
                  (well_formed_noscore c Hwf) eq_refl Hl Hr HtL HtR Hvout HidF HlenRt Hkeys Hset m t q k Hk Hj Henv) as HF.
    cbv zeta in HF. apply proj2 in HF. apply kview_four_specs in HF. destruct HF as (F1 & F2 & F3 & _).
    apply (stage_pipeline_law _ (flt_code_jcase cF p op aeF am njF cpF lsrc rsrc toks (fun _ => []) kz k) k m);
      try assumption; try reflexivity.
    - repeat split.
    - unfold LawsSpec.set_measure. now rewrite Hj.
    - exact (lower_op_of_valid op m (set_measure_not_ed _ Hm) Hvop).
    - intros l r Hl' Hr' Pl Pr Hc.
      pose proof (rows_toks_ok c lsrc rsrc toks kz toks_ok Hset) as Hrows.
      exact (round_agrees_sets_matcher (toks_of l) (toks_of r) m op (PFloat t) (Hrows l (or_introl Hl') Pl)
               (Hrows r (or_intror Hr') Pr) Hj (lower_op_of_valid op m (set_measure_not_ed _ Hm) Hvop) Hc).
  Qed.
End PipelineJcd.

Print Assumptions stage_facts.
Print Assumptions stage_pipeline_law.
Print Assumptions C07_code_pipeline_jcd_partial.
