(* C11: the generated projection / header helpers of utils/generic_helper.py, composed as the
   wrappers compose them (Model/Projection.v), compute the declarative schema and cell values
   of Spec/ProjSpec.v.  Axiom-free (see Print Assumptions at the end).

   Main results:  out_header_correct, out_cells_correct (projected-array path of set_sim_join /
   _filter_tables_split), out_cells_mv_correct (full-table path of get_pairs_with_missing_value).
   Assumptions:   well_formed c  (key, join and every requested out attribute is a column);
                  the source rows have one cell per column; no cell is a raised exception
                  (row_ok).  Column names need NOT be distinct for these theorems: both the
                  model's projection and the spec's cell_of take the FIRST column of a name.  *)
From Coq Require Import ZArith List String Bool Lia.
From SSJ Require Import F64 PyNum HelperGen Projection ProjSpec.
Import ListNotations.
Open Scope string_scope.

(* ---------- py_for over a list is a fold ---------- *)
Lemma py_for_PList : forall (S : Type) (l : list pyval) raised fail body (s0 : S),
  py_for (PList l) raised fail body s0
  = fold_left (fun s x => if raised s then s else body s x) l s0.
Proof. reflexivity. Qed.

Lemma py_for_fold : forall (S A : Type) (R : A -> S) (raised : S -> bool) fail body
                           (step : A -> pyval -> A) (l : list pyval) (a0 : A),
  (forall a, raised (R a) = false) ->
  (forall a x, In x l -> body (R a) x = R (step a x)) ->
  py_for (PList l) raised fail body (R a0) = R (fold_left step l a0).
Proof.
  intros S A R raised fail body step l a0 Hr Hb.
  rewrite py_for_PList. revert a0.
  induction l as [|x l IH]; intros a0; cbn [fold_left].
  - reflexivity.
  - rewrite Hr, Hb by (left; reflexivity).
    apply IH. intros a y Hy. apply Hb. right; exact Hy.
Qed.

Lemma py_for_map : forall (S A B : Type) (f : B -> pyval) (R : A -> S) (raised : S -> bool) fail body
                          (step : A -> B -> A) (l : list B) (a0 : A),
  (forall a, raised (R a) = false) ->
  (forall a b, In b l -> body (R a) (f b) = R (step a b)) ->
  py_for (PList (map f l)) raised fail body (R a0) = R (fold_left step l a0).
Proof.
  intros S A B f R raised fail body step l a0 Hr Hb.
  rewrite py_for_PList. revert a0.
  induction l as [|x l IH]; intros a0; cbn [fold_left map].
  - reflexivity.
  - rewrite Hr, Hb by (left; reflexivity).
    apply IH. intros a y Hy. apply Hb. right; exact Hy.
Qed.

Lemma fold_left_snoc_map : forall (A B : Type) (g : B -> A) (l : list B) (acc : list A),
  fold_left (fun acc b => acc ++ [g b])%list l acc = (acc ++ map g l)%list.
Proof.
  intros A B g l. induction l as [|b l IH]; intros acc; cbn [fold_left map].
  - now rewrite app_nil_r.
  - rewrite IH, <- app_assoc. reflexivity.
Qed.

(* ---------- remove_redundant_attrs ---------- *)
Definition seen_entry (a : string) : pyval := PTuple [PStr a; PBool true].
Definition rr_step (key : string) (u : list string) (a : string) : list string :=
  if String.eqb a key || mem_str a u then u else (u ++ [a])%list.

Lemma dict_lookup_seen : forall u a,
  dict_lookup (map seen_entry u) (PStr a) = if mem_str a u then Some (PBool true) else None.
Proof.
  induction u as [|b u IH]; intros a.
  - reflexivity.
  - cbn [map seen_entry dict_lookup mem_str existsb pv_eqb].
    rewrite (String.eqb_sym a b).
    destruct (String.eqb b a); cbn [orb]; [reflexivity|].
    apply IH.
Qed.

Lemma dict_store_seen : forall u a v,
  mem_str a u = false ->
  dict_store (map seen_entry u) (PStr a) v = (map seen_entry u ++ [PTuple [PStr a; v]])%list.
Proof.
  induction u as [|b u IH]; intros a v Hm.
  - reflexivity.
  - cbn [mem_str existsb] in Hm. apply orb_false_iff in Hm as [Hab Hm].
    cbn [map seen_entry dict_store pv_eqb app].
    rewrite (String.eqb_sym b a), Hab. f_equal. apply IH. exact Hm.
Qed.

Lemma remove_redundant_loop : forall key attrs,
  remove_redundant_attrs (py_strs attrs) (PStr key)
  = py_strs (fold_left (rr_step key) attrs []).
Proof.
  intros key attrs. unfold remove_redundant_attrs, py_strs.
  cbn [py_is_none strict1 bindx py_truth].
  rewrite (py_for_map _ _ _ PStr
             (fun u => (PNone, (PList (map PStr u), PDict (map seen_entry u))))
             _ _ _ (rr_step key) attrs []).
  - reflexivity.
  - reflexivity.
  - intros u a _. cbn [bindx].
    change (py_eq (PStr a) (PStr key)) with (PBool (String.eqb a key)).
    change (py_dict_get2 (PDict (map seen_entry u)) (PStr a))
      with (match dict_lookup (map seen_entry u) (PStr a) with Some v => v | None => PNone end).
    rewrite dict_lookup_seen. unfold rr_step.
    destruct (String.eqb a key) eqn:Hk; cbn [orb py_or py_truth bindx]; [reflexivity|].
    destruct (mem_str a u) eqn:Hm; cbn [py_is_not_none strict1 py_truth bindx]; [reflexivity|].
    cbn [py_append strict2 bindx py_setitem].
    rewrite dict_store_seen by exact Hm.
    rewrite !map_app. reflexivity.
Qed.

Lemma filter_filter : forall (A : Type) (p q : A -> bool) l,
  filter p (filter q l) = filter (fun x => q x && p x) l.
Proof.
  intros A p q l. induction l as [|x l IH]; cbn [filter]; [reflexivity|].
  destruct (q x); cbn [filter andb]; [destruct (p x)|]; now rewrite IH.
Qed.

Lemma mem_str_app : forall a u v, mem_str a (u ++ v) = mem_str a u || mem_str a v.
Proof. intros a u v. unfold mem_str. apply existsb_app. Qed.

Lemma mem_str_In : forall a l, mem_str a l = true <-> In a l.
Proof.
  intros a l. unfold mem_str. rewrite existsb_exists. split.
  - intros [x [Hx He]]. apply String.eqb_eq in He. now subst.
  - intros H. exists a. split; [exact H | apply String.eqb_refl].
Qed.

Lemma rr_fold : forall key t u,
  fold_left (rr_step key) t u
  = (u ++ filter (fun b => negb (mem_str b u))
             (uniq (filter (fun a => negb (String.eqb a key)) t)))%list.
Proof.
  intros key t. induction t as [|a t IH]; intros u; cbn [fold_left filter].
  - cbn. now rewrite app_nil_r.
  - rewrite IH. unfold rr_step.
    destruct (String.eqb a key) eqn:Hk; cbn [orb negb]; [reflexivity|].
    cbn [uniq filter]. destruct (mem_str a u) eqn:Hm; cbn [negb].
    + f_equal. rewrite filter_filter. apply filter_ext_in. intros b _.
      destruct (String.eqb b a) eqn:Hba; cbn [negb andb]; [|reflexivity].
      apply String.eqb_eq in Hba. subst b. now rewrite Hm.
    + rewrite <- app_assoc. cbn [app]. f_equal. f_equal.
      rewrite filter_filter. apply filter_ext. intros b.
      rewrite mem_str_app. cbn [mem_str existsb]. rewrite orb_false_r.
      rewrite negb_orb. apply andb_comm.
Qed.

Lemma remove_redundant_attrs_list : forall key attrs,
  remove_redundant_attrs (PList (map PStr attrs)) (PStr key)
  = PList (map PStr (dedupe_out key (Some attrs))).
Proof.
  intros key attrs. fold (py_strs attrs). rewrite remove_redundant_loop, rr_fold.
  cbn [app dedupe_out]. unfold py_strs. do 2 f_equal.
  rewrite <- (filter_ext (fun _ => true)) by reflexivity.
  induction (uniq _) as [|x l IH]; cbn [filter]; [reflexivity | now rewrite IH].
Qed.

Lemma remove_redundant_attrs_none : forall key, remove_redundant_attrs PNone (PStr key) = PNone.
Proof. reflexivity. Qed.

(* the deduplicated list as an optional list: None stays None *)
Definition dedupe_opt (key : string) (o : option (list string)) : option (list string) :=
  match o with None => None | Some l => Some (dedupe_out key (Some l)) end.

Lemma remove_redundant_attrs_opt : forall key o,
  remove_redundant_attrs (py_opt_strs o) (PStr key) = py_opt_strs (dedupe_opt key o).
Proof.
  intros key [l|]; cbn [py_opt_strs dedupe_opt]; [|reflexivity].
  apply remove_redundant_attrs_list.
Qed.

Lemma opt_list_dedupe_opt : forall key o, opt_list (dedupe_opt key o) = dedupe_out key o.
Proof. intros key [l|]; reflexivity. Qed.

(* ---------- get_attrs_to_project ---------- *)
Definition proj_list (key join : string) (outs : list string) : list string :=
  key :: join :: filter (fun a => negb (String.eqb a join)) outs.

Lemma fold_left_snoc_filter : forall (p : string -> bool) l acc,
  fold_left (fun acc a => if p a then acc ++ [a] else acc)%list l acc = (acc ++ filter p l)%list.
Proof.
  intros p l. induction l as [|a l IH]; intros acc; cbn [fold_left filter].
  - now rewrite app_nil_r.
  - rewrite IH. destruct (p a); [|reflexivity]. now rewrite <- app_assoc.
Qed.

Lemma get_attrs_to_project_opt : forall o key join,
  get_attrs_to_project (py_opt_strs o) (PStr key) (PStr join)
  = py_strs (proj_list key join (opt_list o)).
Proof.
  intros [attrs|] key join; [|reflexivity].
  unfold get_attrs_to_project, py_opt_strs, py_strs.
  cbn [py_is_not_none strict1 bindx py_truth].
  rewrite (py_for_map _ _ _ PStr (fun p => (PNone, PList (map PStr p))) _ _ _
             (fun p a => if negb (String.eqb a join) then p ++ [a] else p)%list
             attrs [key; join]).
  - rewrite fold_left_snoc_filter. reflexivity.
  - reflexivity.
  - intros p a _. cbn [bindx].
    change (py_ne (PStr a) (PStr join)) with (PBool (negb (String.eqb a join))).
    cbn [bindx py_truth].
    destruct (negb (String.eqb a join)); cbn [py_append strict2 bindx].
    + now rewrite map_app.
    + reflexivity.
Qed.

(* ---------- positions ---------- *)
Definition posn (a : string) (cols : list string) : nat :=
  match pos_of a cols with Some n => n | None => O end.
Definition idx_py (cols : list string) (a : string) : pyval := PInt (Z.of_nat (posn a cols)).

Lemma pos_of_In : forall a cols, In a cols -> pos_of a cols = Some (posn a cols).
Proof.
  intros a cols. unfold posn. induction cols as [|c cs IH]; intros Hin; [destruct Hin|].
  cbn [pos_of]. destruct (String.eqb c a) eqn:Hc; [reflexivity|].
  destruct Hin as [->|Hin]; [now rewrite String.eqb_refl in Hc|].
  specialize (IH Hin). destruct (pos_of a cs); [reflexivity | discriminate].
Qed.

Lemma posn_cons : forall a c cs,
  posn a (c :: cs) = if String.eqb c a then O else
                     match pos_of a cs with Some n => S n | None => O end.
Proof.
  intros a c cs. unfold posn. cbn [pos_of].
  destruct (String.eqb c a); [reflexivity|]. destruct (pos_of a cs); reflexivity.
Qed.

Lemma posn_lt : forall a cols, In a cols -> (posn a cols < List.length cols)%nat.
Proof.
  intros a cols. induction cols as [|c cs IH]; intros Hin; [destruct Hin|].
  rewrite posn_cons. cbn [List.length]. destruct (String.eqb c a) eqn:Hc; [lia|].
  destruct Hin as [->|Hin]; [now rewrite String.eqb_refl in Hc|].
  specialize (IH Hin). rewrite (pos_of_In _ _ Hin). lia.
Qed.

Lemma index_of_strs : forall a cols i,
  index_of (PStr a) (map PStr cols) i
  = match pos_of a cols with Some n => Some (i + Z.of_nat n)%Z | None => None end.
Proof.
  intros a cols. induction cols as [|c cs IH]; intros i; [reflexivity|].
  cbn [map index_of pos_of pv_eqb].
  destruct (String.eqb c a).
  - cbn. now rewrite Z.add_0_r.
  - rewrite IH. destruct (pos_of a cs); cbn [option_map]; [|reflexivity].
    f_equal. lia.
Qed.

Lemma py_index_strs : forall cols a, In a cols ->
  py_index (py_strs cols) (PStr a) = idx_py cols a.
Proof.
  intros cols a Hin. unfold py_index, py_strs, idx_py. cbn [strict2].
  rewrite index_of_strs, (pos_of_In _ _ Hin). reflexivity.
Qed.

(* ---------- find_output_attribute_indices ---------- *)
Lemma find_output_attribute_indices_opt : forall cols o,
  (forall a, In a (opt_list o) -> In a cols) ->
  find_output_attribute_indices (py_strs cols) (py_opt_strs o)
  = PList (map (idx_py cols) (opt_list o)).
Proof.
  intros cols [attrs|] Hin; [|reflexivity].
  cbn [opt_list] in *. unfold find_output_attribute_indices, py_opt_strs.
  unfold py_strs at 2.
  cbn [py_is_not_none strict1 bindx py_truth].
  rewrite (py_for_map _ _ _ PStr (fun p => (PNone, PList p)) _ _ _
             (fun p a => p ++ [idx_py cols a])%list attrs []).
  - rewrite fold_left_snoc_map. reflexivity.
  - reflexivity.
  - intros p a Ha. cbn [bindx]. rewrite py_index_strs by (apply Hin; exact Ha).
    reflexivity.
Qed.

Lemma find_output_attribute_indices_list : forall cols attrs,
  (forall a, In a attrs -> In a cols) ->
  find_output_attribute_indices (PList (map PStr cols)) (PList (map PStr attrs))
  = PList (map (fun a => PInt (Z.of_nat (posn a cols))) attrs).
Proof. intros cols attrs H. exact (find_output_attribute_indices_opt cols (Some attrs) H). Qed.

(* ---------- get_output_header_from_tables ---------- *)
Lemma header_loop : forall (pre : string) (attrs : list string) (acc : list string) fail,
  py_for (PList (map PStr attrs)) (fun s_ : pyval * pyval => is_exc (fst s_)) fail
    (fun s_ x_it => let '(_, v_output_header) := s_ in
       bindx x_it (fun x_ => (x_, v_output_header)) (fun v_attr =>
       bindx (py_append v_output_header (py_add (PStr pre) v_attr))
             (fun x_ => (x_, v_output_header)) (fun v_output_header => (PNone, v_output_header))))
    (PNone, PList (map PStr acc))
  = (PNone, PList (map PStr (acc ++ map (append pre) attrs))).
Proof.
  intros pre attrs acc fail.
  rewrite (py_for_map _ _ _ PStr (fun p => (PNone, PList (map PStr p))) _ _ _
             (fun p a => p ++ [(pre ++ a)%string])%list attrs acc).
  - rewrite fold_left_snoc_map. reflexivity.
  - reflexivity.
  - intros p a _. cbn [bindx py_add py_append strict2]. now rewrite map_app.
Qed.

Lemma get_output_header_from_tables_opt : forall lk rk lo ro lp rp,
  get_output_header_from_tables (PStr lk) (PStr rk) (py_opt_strs lo) (py_opt_strs ro)
                                (PStr lp) (PStr rp)
  = py_strs ((lp ++ lk) :: (rp ++ rk)
             :: (map (append lp) (opt_list lo) ++ map (append rp) (opt_list ro))%list).
Proof.
  intros lk rk lo ro lp rp. unfold get_output_header_from_tables, py_opt_strs, py_strs.
  change (py_append (PList []) (py_add (PStr lp) (PStr lk))) with (PList [PStr (lp ++ lk)]).
  cbn [bindx].
  change (py_append (PList [PStr (lp ++ lk)]) (py_add (PStr rp) (PStr rk)))
    with (PList (map PStr [lp ++ lk; rp ++ rk])).
  cbn [bindx].
  match goal with |- _ = PList (map PStr (?a :: ?b :: ?r)) => change (a :: b :: r) with ([a; b] ++ r)%list end.
  generalize [lp ++ lk; rp ++ rk]. intros acc.
  destruct lo as [[|a lt]|]; cbn [py_opt_strs py_strs map bindx py_truth opt_list];
    try (change (PStr a :: map PStr lt) with (map PStr (a :: lt)); rewrite header_loop);
    cbn [bindx app map];
    destruct ro as [[|b rt]|]; cbn [py_opt_strs py_strs map bindx py_truth opt_list];
    try (change (PStr b :: map PStr rt) with (map PStr (b :: rt)); rewrite header_loop);
    cbn [bindx]; rewrite ?app_nil_r, <- ?app_assoc; reflexivity.
Qed.

(* ---------- rows ---------- *)
Definition natpy (n : nat) : pyval := PInt (Z.of_nat n).

(* rowv is a Python sequence whose items are the cells `row` *)
Definition getrow (rowv : pyval) (row : list pyval) : Prop :=
  forall n, (n < List.length row)%nat -> py_getitem rowv (natpy n) = nth n row PNone.

Lemma norm_index_nat : forall len n, (n < len)%nat -> norm_index len (Z.of_nat n) = Some n.
Proof.
  intros len n Hlt. unfold norm_index.
  destruct (Z.ltb_spec (Z.of_nat n) 0) as [H0|H0]; [lia|].
  destruct (Z.ltb_spec (Z.of_nat n) 0) as [H1|H1]; [lia|].
  destruct (Z.ltb_spec (Z.of_nat n) (Z.of_nat len)) as [H2|H2]; [|lia].
  now rewrite Nat2Z.id.
Qed.

Lemma getrow_list : forall l, getrow (PList l) l.
Proof.
  intros l n Hn. unfold natpy. cbn [py_getitem strict2].
  rewrite norm_index_nat by exact Hn. apply nth_indep. exact Hn.
Qed.
Lemma getrow_tuple : forall l, getrow (PTuple l) l.
Proof.
  intros l n Hn. unfold natpy. cbn [py_getitem strict2].
  rewrite norm_index_nat by exact Hn. apply nth_indep. exact Hn.
Qed.

Lemma py_append_ok : forall p x, is_exc x = false -> py_append (PList p) x = PList (p ++ [x]).
Proof. intros p x Hx. destruct x; try reflexivity. discriminate. Qed.

Lemma bindx_ok : forall (A : Type) v (f k : pyval -> A), is_exc v = false -> bindx v f k = k v.
Proof. intros A v f k Hv. destruct v; try reflexivity. discriminate. Qed.

Lemma row_nth_ok : forall row n, row_ok row -> (n < List.length row)%nat ->
  is_exc (nth n row PNone) = false.
Proof. intros row n Hok Hn. apply Hok. apply nth_In. exact Hn. Qed.

Lemma row_loop : forall rowv row idxs acc fail,
  getrow rowv row -> row_ok row -> (forall n, In n idxs -> (n < List.length row)%nat) ->
  py_for (PList (map natpy idxs)) (fun s_ : pyval * pyval => is_exc (fst s_)) fail
    (fun s_ x_it => let '(_, v_output_row) := s_ in
       bindx x_it (fun x_ => (x_, v_output_row)) (fun v_idx =>
       bindx (py_append v_output_row (py_getitem rowv v_idx))
             (fun x_ => (x_, v_output_row)) (fun v_output_row => (PNone, v_output_row))))
    (PNone, PList acc)
  = (PNone, PList (acc ++ map (fun n => nth n row PNone) idxs)).
Proof.
  intros rowv row idxs acc fail Hg Hok Hidx.
  rewrite (py_for_map _ _ _ natpy (fun p => (PNone, PList p)) _ _ _
             (fun p n => p ++ [nth n row PNone])%list idxs acc).
  - rewrite fold_left_snoc_map. reflexivity.
  - reflexivity.
  - intros p n Hn. unfold natpy at 1. cbn [bindx]. fold (natpy n).
    rewrite Hg by (apply Hidx; exact Hn).
    rewrite py_append_ok by (apply row_nth_ok; [exact Hok | apply Hidx; exact Hn]).
    reflexivity.
Qed.

Lemma get_output_row_from_tables_idx : forall lv lrow rv rrow ki kj li ri,
  getrow lv lrow -> getrow rv rrow -> row_ok lrow -> row_ok rrow ->
  (ki < List.length lrow)%nat -> (kj < List.length rrow)%nat ->
  (forall n, In n li -> (n < List.length lrow)%nat) ->
  (forall n, In n ri -> (n < List.length rrow)%nat) ->
  get_output_row_from_tables lv rv (natpy ki) (natpy kj) (PList (map natpy li)) (PList (map natpy ri))
  = PList (nth ki lrow PNone :: nth kj rrow PNone
           :: (map (fun n => nth n lrow PNone) li ++ map (fun n => nth n rrow PNone) ri)%list).
Proof.
  intros lv lrow rv rrow ki kj li ri Hgl Hgr Hokl Hokr Hki Hkj Hli Hri.
  unfold get_output_row_from_tables.
  rewrite (Hgl ki Hki), (Hgr kj Hkj).
  rewrite py_append_ok by (apply row_nth_ok; assumption). cbn [bindx app].
  rewrite py_append_ok by (apply row_nth_ok; assumption). cbn [bindx app].
  match goal with |- _ = PList (?a :: ?b :: ?r) => change (a :: b :: r) with ([a; b] ++ r)%list end.
  generalize [nth ki lrow PNone; nth kj rrow PNone]. intros acc.
  destruct li as [|i lt]; cbn [map bindx py_truth];
    try (change (natpy i :: map natpy lt) with (map natpy (i :: lt));
         rewrite (row_loop lv lrow) by assumption);
    cbn [bindx app map];
    destruct ri as [|j rt]; cbn [map bindx py_truth];
    try (change (natpy j :: map natpy rt) with (map natpy (j :: rt));
         rewrite (row_loop rv rrow) by assumption);
    cbn [bindx]; rewrite ?app_nil_r, <- ?app_assoc; reflexivity.
Qed.

(* ---------- cells by name, and the positional-index lemma ---------- *)
Definition cellv (cols : list string) (row : list pyval) (a : string) : pyval :=
  nth (posn a cols) row PNone.

Lemma cell_of_cellv : forall cols row a,
  In a cols -> List.length row = List.length cols ->
  cell_of cols row a = Some (cellv cols row a).
Proof.
  intros cols. induction cols as [|c cs IH]; intros row a Hin Hlen; [destruct Hin|].
  destruct row as [|v vs]; [discriminate|]. cbn [List.length] in Hlen.
  unfold cellv. rewrite posn_cons. cbn [cell_of].
  destruct (String.eqb c a) eqn:Hc; [reflexivity|].
  destruct Hin as [->|Hin]; [now rewrite String.eqb_refl in Hc|].
  rewrite (pos_of_In _ _ Hin). cbn [nth]. apply IH; [exact Hin | lia].
Qed.

(* the cell selected through the index into the projected row is the cell of that attribute
   in the source row *)
Lemma nth_posn_map : forall (f : string -> pyval) a l d,
  In a l -> nth (posn a l) (map f l) d = f a.
Proof.
  intros f a l d. induction l as [|c cs IH]; intros Hin; [destruct Hin|].
  rewrite posn_cons. cbn [map].
  destruct (String.eqb c a) eqn:Hc.
  - apply String.eqb_eq in Hc. now subst.
  - destruct Hin as [->|Hin]; [now rewrite String.eqb_refl in Hc|].
    rewrite (pos_of_In _ _ Hin). cbn [nth]. apply IH. exact Hin.
Qed.

Lemma positional_index : forall cols row proj a,
  In a proj -> cellv proj (map (cellv cols row) proj) a = cellv cols row a.
Proof. intros cols row proj a Hin. unfold cellv at 1. apply nth_posn_map. exact Hin. Qed.

Lemma all_some_map_Some : forall (A B : Type) (f : A -> B) l,
  all_some (map (fun a => Some (f a)) l) = Some (map f l).
Proof.
  intros A B f l. induction l as [|a l IH]; cbn [map all_some]; [reflexivity|].
  now rewrite IH.
Qed.

Lemma all_some_Some : forall (A : Type) (l : list A), all_some (map Some l) = Some l.
Proof. intros A l. rewrite (all_some_map_Some _ _ (fun x => x)). now rewrite map_id. Qed.

Lemma project_row_eq : forall cols row proj,
  (forall a, In a proj -> In a cols) -> List.length row = List.length cols ->
  project_row cols row proj = Some (map (cellv cols row) proj).
Proof.
  intros cols row proj Hin Hlen. unfold project_row.
  rewrite <- all_some_map_Some. f_equal. apply map_ext_in. intros a Ha.
  rewrite (pos_of_In _ _ (Hin a Ha)). unfold cellv.
  apply nth_error_nth'. rewrite Hlen. apply posn_lt. apply Hin. exact Ha.
Qed.

Lemma cellv_ok : forall cols row a,
  row_ok row -> In a cols -> List.length row = List.length cols ->
  is_exc (cellv cols row a) = false.
Proof.
  intros cols row a Hok Hin Hlen. unfold cellv. apply row_nth_ok; [exact Hok|].
  rewrite Hlen. apply posn_lt. exact Hin.
Qed.

Lemma project_row_ok : forall cols row proj,
  row_ok row -> (forall a, In a proj -> In a cols) -> List.length row = List.length cols ->
  row_ok (map (cellv cols row) proj).
Proof.
  intros cols row proj Hok Hin Hlen v Hv. apply in_map_iff in Hv as [a [<- Ha]].
  apply cellv_ok; auto.
Qed.

Lemma strs_of_py_strs : forall l, strs_of (py_strs l) = Some l.
Proof.
  intros l. unfold strs_of, py_strs. rewrite map_map.
  rewrite (all_some_map_Some _ _ (fun s => s)). now rewrite map_id.
Qed.

Lemma strs_of_strs : forall l, strs_of (PList (map PStr l)) = Some l.
Proof. exact strs_of_py_strs. Qed.

(* ---------- build_row ---------- *)
Lemma idx_py_map : forall cols l, map (idx_py cols) l = map natpy (map (fun a => posn a cols) l).
Proof. intros cols l. rewrite map_map. reflexivity. Qed.

Lemma build_row_eq : forall lpc rpc lk rk lo ro lv rv lprow rprow,
  getrow lv lprow -> getrow rv rprow -> row_ok lprow -> row_ok rprow ->
  List.length lprow = List.length lpc -> List.length rprow = List.length rpc ->
  In lk lpc -> In rk rpc ->
  (forall a, In a (opt_list lo) -> In a lpc) -> (forall a, In a (opt_list ro) -> In a rpc) ->
  build_row (py_strs lpc) (py_strs rpc) (PStr lk) (PStr rk) (py_opt_strs lo) (py_opt_strs ro) lv rv
  = PList (cellv lpc lprow lk :: cellv rpc rprow rk
           :: (map (cellv lpc lprow) (opt_list lo) ++ map (cellv rpc rprow) (opt_list ro))%list).
Proof.
  intros lpc rpc lk rk lo ro lv rv lprow rprow Hgl Hgr Hokl Hokr Hll Hlr Hlk Hrk Hlo Hro.
  unfold build_row.
  rewrite !py_index_strs by assumption.
  rewrite !find_output_attribute_indices_opt by assumption.
  assert (Hkl : (posn lk lpc < List.length lprow)%nat) by (rewrite Hll; now apply posn_lt).
  assert (Hkr : (posn rk rpc < List.length rprow)%nat) by (rewrite Hlr; now apply posn_lt).
  assert (Hrow : get_output_row_from_tables lv rv (idx_py lpc lk) (idx_py rpc rk)
                   (PList (map (idx_py lpc) (opt_list lo))) (PList (map (idx_py rpc) (opt_list ro)))
                 = PList (cellv lpc lprow lk :: cellv rpc rprow rk
                   :: (map (cellv lpc lprow) (opt_list lo) ++ map (cellv rpc rprow) (opt_list ro))%list)).
  { rewrite !idx_py_map. change (idx_py lpc lk) with (natpy (posn lk lpc)).
    change (idx_py rpc rk) with (natpy (posn rk rpc)).
    rewrite (get_output_row_from_tables_idx lv lprow rv rprow); try assumption.
    - rewrite !map_map. reflexivity.
    - intros n Hn. apply in_map_iff in Hn as [a [<- Ha]]. rewrite Hll. apply posn_lt. now apply Hlo.
    - intros n Hn. apply in_map_iff in Hn as [a [<- Ha]]. rewrite Hlr. apply posn_lt. now apply Hro. }
  destruct lo as [lo|]; [|destruct ro as [ro|]];
    cbn [py_opt_strs py_strs py_is_not_none strict1 py_or py_truth bindx];
    try exact Hrow.
  cbn [opt_list map app]. unfold idx_py. fold (natpy (posn lk lpc)). fold (natpy (posn rk rpc)).
  rewrite (Hgl _ Hkl), (Hgr _ Hkr).
  rewrite !bindx_ok; [reflexivity | |]; apply row_nth_ok; assumption.
Qed.

(* ---------- the deduplicated request list ---------- *)
Lemma uniq_incl : forall l a, In a (uniq l) -> In a l.
Proof.
  induction l as [|b t IH]; intros a Ha; [exact Ha|].
  cbn [uniq] in Ha. destruct Ha as [->|Ha]; [left; reflexivity|].
  apply filter_In in Ha as [Ha _]. right. apply IH. exact Ha.
Qed.

Lemma uniq_In : forall l a, In a l -> In a (uniq l).
Proof.
  induction l as [|b t IH]; intros a Ha; [exact Ha|].
  cbn [uniq]. destruct (String.eqb a b) eqn:Hab.
  - apply String.eqb_eq in Hab. left. now subst.
  - destruct Ha as [->|Ha]; [now rewrite String.eqb_refl in Hab|].
    right. apply filter_In. split; [apply IH; exact Ha | now rewrite Hab].
Qed.

Lemma uniq_NoDup : forall l, NoDup (uniq l).
Proof.
  induction l as [|b t IH]; cbn [uniq]; constructor.
  - intros Hin. apply filter_In in Hin as [_ Hb]. now rewrite String.eqb_refl in Hb.
  - apply NoDup_filter. exact IH.
Qed.

(* "the key attribute and repeats removed": membership and distinctness *)
Lemma dedupe_out_In : forall key l a,
  In a (dedupe_out key (Some l)) <-> In a l /\ a <> key.
Proof.
  intros key l a. cbn [dedupe_out]. split.
  - intros Ha. apply uniq_incl, filter_In in Ha as [Ha Hk]. split; [exact Ha|].
    intros ->. now rewrite String.eqb_refl in Hk.
  - intros [Ha Hk]. apply uniq_In, filter_In. split; [exact Ha|].
    apply String.eqb_neq in Hk. now rewrite Hk.
Qed.

Lemma dedupe_out_NoDup : forall key o, NoDup (dedupe_out key o).
Proof. intros key [l|]; [apply uniq_NoDup | constructor]. Qed.

Lemma dedupe_out_incl : forall key o a, In a (dedupe_out key o) -> In a (opt_list o).
Proof.
  intros key [l|] a Ha; [|destruct Ha]. apply dedupe_out_In in Ha as [Ha _]. exact Ha.
Qed.

(* ---------- the wrapper's preprocessing ---------- *)
Lemma l_out_eq : forall c, l_out c = py_opt_strs (dedupe_opt (p_lkey c) (p_lout c)).
Proof. intros c. apply remove_redundant_attrs_opt. Qed.
Lemma r_out_eq : forall c, r_out c = py_opt_strs (dedupe_opt (p_rkey c) (p_rout c)).
Proof. intros c. apply remove_redundant_attrs_opt. Qed.
Lemma l_proj_eq : forall c,
  l_proj c = py_strs (proj_list (p_lkey c) (p_ljoin c) (dedupe_out (p_lkey c) (p_lout c))).
Proof.
  intros c. unfold l_proj. rewrite l_out_eq, get_attrs_to_project_opt, opt_list_dedupe_opt.
  reflexivity.
Qed.
Lemma r_proj_eq : forall c,
  r_proj c = py_strs (proj_list (p_rkey c) (p_rjoin c) (dedupe_out (p_rkey c) (p_rout c))).
Proof.
  intros c. unfold r_proj. rewrite r_out_eq, get_attrs_to_project_opt, opt_list_dedupe_opt.
  reflexivity.
Qed.

Lemma proj_list_In : forall key join outs a, In a outs -> In a (proj_list key join outs).
Proof.
  intros key join outs a Ha. unfold proj_list.
  destruct (String.eqb a join) eqn:Hj.
  - apply String.eqb_eq in Hj. subst. right; left; reflexivity.
  - right; right. apply filter_In. split; [exact Ha | now rewrite Hj].
Qed.

Lemma proj_list_incl : forall key join outs cols a,
  In key cols -> In join cols -> (forall b, In b outs -> In b cols) ->
  In a (proj_list key join outs) -> In a cols.
Proof.
  intros key join outs cols a Hk Hj Ho [<-|[<-|Ha]]; [exact Hk | exact Hj |].
  apply filter_In in Ha as [Ha _]. apply Ho. exact Ha.
Qed.

(* ---------- main theorems ---------- *)
Theorem out_header_correct : forall c, well_formed c -> out_header c = Some (header_spec c).
Proof.
  intros c _. unfold out_header, out_header_py.
  rewrite l_out_eq, r_out_eq, get_output_header_from_tables_opt, !opt_list_dedupe_opt.
  unfold header_spec, py_strs.
  destruct (p_score c); cbn [py_append py_insert0 strict2].
  - change [PStr "_sim_score"] with (map PStr ["_sim_score"]).
    rewrite <- map_app, <- map_cons, strs_of_strs. cbn [app]. now rewrite <- app_assoc.
  - rewrite <- map_cons, strs_of_strs. now rewrite app_nil_r.
Qed.

(* the value both sides compute *)
Definition cells_list (c : pcase) (lrow rrow : list pyval) : list pyval :=
  cellv (p_lcols c) lrow (p_lkey c) :: cellv (p_rcols c) rrow (p_rkey c)
  :: (map (cellv (p_lcols c) lrow) (dedupe_out (p_lkey c) (p_lout c))
      ++ map (cellv (p_rcols c) rrow) (dedupe_out (p_rkey c) (p_rout c)))%list.

Lemma cells_spec_eq : forall c lrow rrow, well_formed c ->
  List.length lrow = List.length (p_lcols c) -> List.length rrow = List.length (p_rcols c) ->
  cells_spec c lrow rrow = Some (cells_list c lrow rrow).
Proof.
  intros c lrow rrow Hwf Hl Hr. destruct Hwf as [Hlk Hlj Hlo Hrk Hrj Hro].
  unfold cells_spec, cells_list.
  rewrite <- all_some_Some. f_equal. cbn [map]. rewrite (cell_of_cellv _ _ _ Hlk Hl), (cell_of_cellv _ _ _ Hrk Hr).
  f_equal. f_equal. rewrite map_app, !map_map. f_equal; apply map_ext_in; intros a Ha.
  - apply cell_of_cellv; [|exact Hl]. apply Hlo. eapply dedupe_out_incl. exact Ha.
  - apply cell_of_cellv; [|exact Hr]. apply Hro. eapply dedupe_out_incl. exact Ha.
Qed.

Lemma out_cells_eq : forall c lrow rrow, well_formed c ->
  List.length lrow = List.length (p_lcols c) -> List.length rrow = List.length (p_rcols c) ->
  row_ok lrow -> row_ok rrow ->
  out_cells c lrow rrow = Some (cells_list c lrow rrow).
Proof.
  intros c lrow rrow Hwf Hl Hr Hokl Hokr. destruct Hwf as [Hlk Hlj Hlo Hrk Hrj Hro].
  unfold out_cells. rewrite l_proj_eq, r_proj_eq, !strs_of_py_strs.
  set (lo := dedupe_out (p_lkey c) (p_lout c)). set (ro := dedupe_out (p_rkey c) (p_rout c)).
  set (lp := proj_list (p_lkey c) (p_ljoin c) lo). set (rp := proj_list (p_rkey c) (p_rjoin c) ro).
  assert (Hlpi : forall a, In a lp -> In a (p_lcols c)).
  { intros a Ha. eapply proj_list_incl; [exact Hlk | exact Hlj | | exact Ha].
    intros b Hb. apply Hlo. eapply dedupe_out_incl. exact Hb. }
  assert (Hrpi : forall a, In a rp -> In a (p_rcols c)).
  { intros a Ha. eapply proj_list_incl; [exact Hrk | exact Hrj | | exact Ha].
    intros b Hb. apply Hro. eapply dedupe_out_incl. exact Hb. }
  rewrite (project_row_eq _ _ _ Hlpi Hl), (project_row_eq _ _ _ Hrpi Hr).
  rewrite l_out_eq, r_out_eq.
  rewrite (build_row_eq lp rp _ _ _ _ _ _ (map (cellv (p_lcols c) lrow) lp)
                        (map (cellv (p_rcols c) rrow) rp)).
  - cbn [list_of]. unfold cells_list. rewrite !opt_list_dedupe_opt. fold lo ro.
    f_equal. rewrite !positional_index by (left; reflexivity). f_equal. f_equal.
    f_equal; apply map_ext_in; intros a Ha; apply positional_index; now apply proj_list_In.
  - apply getrow_list.
  - apply getrow_list.
  - now apply project_row_ok.
  - now apply project_row_ok.
  - apply map_length.
  - apply map_length.
  - left; reflexivity.
  - left; reflexivity.
  - intros a Ha. rewrite opt_list_dedupe_opt in Ha. now apply proj_list_In.
  - intros a Ha. rewrite opt_list_dedupe_opt in Ha. now apply proj_list_In.
Qed.

Lemma out_cells_mv_eq : forall c lrow rrow, well_formed c ->
  List.length lrow = List.length (p_lcols c) -> List.length rrow = List.length (p_rcols c) ->
  row_ok lrow -> row_ok rrow ->
  out_cells_mv c lrow rrow = Some (cells_list c lrow rrow).
Proof.
  intros c lrow rrow Hwf Hl Hr Hokl Hokr. destruct Hwf as [Hlk Hlj Hlo Hrk Hrj Hro].
  unfold out_cells_mv. rewrite l_out_eq, r_out_eq.
  rewrite (build_row_eq _ _ _ _ _ _ _ _ lrow rrow); try assumption.
  - cbn [list_of]. unfold cells_list. now rewrite !opt_list_dedupe_opt.
  - apply getrow_tuple.
  - apply getrow_tuple.
  - intros a Ha. rewrite opt_list_dedupe_opt in Ha. apply Hlo. eapply dedupe_out_incl. exact Ha.
  - intros a Ha. rewrite opt_list_dedupe_opt in Ha. apply Hro. eapply dedupe_out_incl. exact Ha.
Qed.

(* Main path (projected arrays): model = spec, and both are defined. *)
Theorem out_cells_correct : forall c lrow rrow, well_formed c ->
  List.length lrow = List.length (p_lcols c) -> List.length rrow = List.length (p_rcols c) ->
  row_ok lrow -> row_ok rrow ->
  out_cells c lrow rrow = cells_spec c lrow rrow
  /\ exists cells, cells_spec c lrow rrow = Some cells.
Proof.
  intros c lrow rrow Hwf Hl Hr Hokl Hokr.
  rewrite out_cells_eq, cells_spec_eq by assumption. split; [reflexivity | eauto].
Qed.

(* Missing-value path (full tables): the same cells. *)
Theorem out_cells_mv_correct : forall c lrow rrow, well_formed c ->
  List.length lrow = List.length (p_lcols c) -> List.length rrow = List.length (p_rcols c) ->
  row_ok lrow -> row_ok rrow ->
  out_cells_mv c lrow rrow = cells_spec c lrow rrow.
Proof.
  intros c lrow rrow Hwf Hl Hr Hokl Hokr.
  now rewrite out_cells_mv_eq, cells_spec_eq by assumption.
Qed.

(* ---------- boolean side conditions and checkers used by the harness ---------- *)
Lemma well_formedb_sound : forall c, well_formedb c = true -> well_formed c.
Proof.
  intros c H. unfold well_formedb in H.
  apply andb_true_iff in H as [H Hro]. apply andb_true_iff in H as [H Hrj].
  apply andb_true_iff in H as [H Hrk]. apply andb_true_iff in H as [H Hlo].
  apply andb_true_iff in H as [Hlk Hlj]. rewrite forallb_forall in Hlo, Hro.
  constructor; try (apply mem_str_In; assumption).
  - intros a Ha. apply mem_str_In. exact (Hlo a Ha).
  - intros a Ha. apply mem_str_In. exact (Hro a Ha).
Qed.

Lemma row_okb_sound : forall row, row_okb row = true -> row_ok row.
Proof.
  intros row H v Hv. unfold row_okb in H. eapply forallb_forall in H; [|exact Hv].
  now destruct (is_exc v).
Qed.

Lemma list_eqb_str : forall x y, list_eqb String.eqb x y = true <-> x = y.
Proof.
  induction x as [|a x IH]; intros [|b y]; cbn [list_eqb]; split; intros H;
    try reflexivity; try discriminate.
  - apply andb_true_iff in H as [Hab H]. apply String.eqb_eq in Hab. apply IH in H. now subst.
  - injection H as -> ->. rewrite String.eqb_refl. now apply IH.
Qed.

Theorem header_ok_iff : forall c obs, header_ok c obs = true <-> obs = header_spec c.
Proof. intros c obs. unfold header_ok. rewrite list_eqb_str. split; intros H; now symmetry. Qed.

(* ---------- concrete instances ---------- *)
Definition ex_mixed : pcase :=
  {| p_lcols := ["x"; "id"; "s"; "y"]; p_rcols := ["k"; "t"; "u"];
     p_lkey := "id"; p_rkey := "k"; p_ljoin := "s"; p_rjoin := "t";
     p_lout := Some ["y"; "x"; "y"; "s"; "id"; "x"]; p_rout := Some ["u"; "t"; "k"; "u"];
     p_lpre := "l_"; p_rpre := "r_"; p_score := true |}.
Definition ex_lrow : list pyval := [PInt 10; PInt 1; PStr "abc"; PFloat (f_of_Z 3)].
Definition ex_rrow : list pyval := [PInt 7; PStr "abd"; PNone].

Example ex_mixed_header :
  out_header ex_mixed
  = Some ["_id"; "l_id"; "r_k"; "l_y"; "l_x"; "l_s"; "r_u"; "r_t"; "_sim_score"].
Proof. vm_compute. reflexivity. Qed.
Example ex_mixed_proj :
  (proj_attrs_l ex_mixed, proj_attrs_r ex_mixed)
  = (Some ["id"; "s"; "y"; "x"], Some ["k"; "t"; "u"]).
Proof. vm_compute. reflexivity. Qed.
Example ex_mixed_cells :
  out_cells ex_mixed ex_lrow ex_rrow
  = Some [PInt 1; PInt 7; PFloat (f_of_Z 3); PInt 10; PStr "abc"; PNone; PStr "abd"]
  /\ out_cells_mv ex_mixed ex_lrow ex_rrow = out_cells ex_mixed ex_lrow ex_rrow
  /\ cells_spec ex_mixed ex_lrow ex_rrow = out_cells ex_mixed ex_lrow ex_rrow.
Proof. vm_compute. repeat split. Qed.
Example ex_mixed_ok :
  well_formedb ex_mixed = true
  /\ cells_ok ex_mixed ex_lrow ex_rrow
       [PInt 1; PInt 7; PFloat (f_of_Z 3); PInt 10; PStr "abc"; PFloat SpecFloat.S754_nan; PStr "abd"]
     = true
  /\ cells_ok ex_mixed ex_lrow ex_rrow
       [PInt 1; PInt 7; PFloat (f_of_Z 3); PInt 10; PStr "abd"; PNone; PStr "abd"] = false.
Proof. vm_compute. repeat split. Qed.

(* no attribute requested at all (both None): the direct two-cell row; key column = join column *)
Definition ex_none : pcase :=
  {| p_lcols := ["x"; "id"; "s"; "y"]; p_rcols := ["k"; "t"; "u"];
     p_lkey := "id"; p_rkey := "t"; p_ljoin := "id"; p_rjoin := "t";
     p_lout := None; p_rout := None; p_lpre := "l_"; p_rpre := "r_"; p_score := false |}.
Example ex_none_all :
  out_header ex_none = Some ["_id"; "l_id"; "r_t"]
  /\ proj_attrs_l ex_none = Some ["id"; "id"]
  /\ out_cells ex_none ex_lrow ex_rrow = Some [PInt 1; PStr "abd"]
  /\ out_cells_mv ex_none ex_lrow ex_rrow = Some [PInt 1; PStr "abd"]
  /\ cells_spec ex_none ex_lrow ex_rrow = Some [PInt 1; PStr "abd"].
Proof. vm_compute. repeat split. Qed.

(* one side None, the other Some []; and only the key / only the join attribute requested *)
Definition ex_edge : pcase :=
  {| p_lcols := ["x"; "id"; "s"; "y"]; p_rcols := ["k"; "t"; "u"];
     p_lkey := "id"; p_rkey := "k"; p_ljoin := "s"; p_rjoin := "t";
     p_lout := Some ["id"; "id"]; p_rout := Some ["t"; "t"]; p_lpre := ""; p_rpre := "r_";
     p_score := false |}.
Example ex_edge_all :
  out_header ex_edge = Some ["_id"; "id"; "r_k"; "r_t"]
  /\ out_cells ex_edge ex_lrow ex_rrow = Some [PInt 1; PInt 7; PStr "abd"]
  /\ out_cells_mv ex_edge ex_lrow ex_rrow = Some [PInt 1; PInt 7; PStr "abd"]
  /\ cells_spec ex_edge ex_lrow ex_rrow = Some [PInt 1; PInt 7; PStr "abd"].
Proof. vm_compute. repeat split. Qed.

(* outside well_formed: a requested attribute that is not a column makes the pipeline raise *)
Definition ex_bad : pcase :=
  {| p_lcols := ["x"; "id"; "s"; "y"]; p_rcols := ["k"; "t"; "u"];
     p_lkey := "id"; p_rkey := "k"; p_ljoin := "s"; p_rjoin := "t";
     p_lout := Some ["zz"]; p_rout := None; p_lpre := "l_"; p_rpre := "r_"; p_score := false |}.
Example ex_bad_all :
  well_formedb ex_bad = false
  /\ out_cells ex_bad ex_lrow ex_rrow = None
  /\ out_cells_mv ex_bad ex_lrow ex_rrow = None
  /\ cells_spec ex_bad ex_lrow ex_rrow = None.
Proof. vm_compute. repeat split. Qed.

Print Assumptions out_header_correct.
Print Assumptions out_cells_correct.
Print Assumptions out_cells_mv_correct.
Print Assumptions remove_redundant_attrs_list.
Print Assumptions positional_index.
