(* (b), (c)  The GENERATED per-chunk join loop refines the hand model.
   Under the row / formula / similarity hypotheses the rows returned by the generated
   set_sim_join_rows (Gen/JoinGen.v) are -- up to a permutation inside each right row's group:
   the implementation walks the candidate dict in insertion order, the model walks the left rows
   in ascending order -- exactly the output rows built from the triples of
   set_sim_join_core (Model/Joins.v):

       rows  ~  map (fun '(c, j, s) => cells(nth c ltable, nth j rtable) ++ [s if out_sim_score]) T
       set_sim_join_core p op allow_empty L R = Some T

   and the header is the generated header plus "_sim_score".  (JoinRefineProj.v instantiates
   cells / header with the projection model: out_cells and header_spec.)
   Formulas stay opaque.  Axiom-free.                                                     *)
From Coq Require Import ZArith Bool List String Lia Permutation.
From SSJ Require Import F64 PyNum FilterUtilsGen HelperGen TokenOrderingGen ValidationGen IndexGen JoinGen
     TokenOrdering Measures Filters Joins Projection ProjSpec ProjectionFacts OrderingGenFacts
     IndexPyFacts IndexBuildFacts IndexProbeFacts IndexRefine JoinGenFacts JoinGenLoop.
Import ListNotations.
Open Scope Z_scope.

(* ---------------------------------------------------------------- list lemmas *)
Lemma enumerate_from_as_map {A} (d : A) : forall (xs : list A) (s : nat),
  combine (seq s (List.length xs)) xs = map (fun c => (c, nth (c - s) xs d)) (seq s (List.length xs)).
Proof.
  induction xs as [|x xs IH]; intros s; cbn [List.length seq combine map]; [reflexivity|].
  rewrite Nat.sub_diag. cbn [nth]. f_equal. rewrite IH. apply map_ext_in.
  intros c Hc. apply in_seq in Hc. replace (c - s)%nat with (S (c - S s)) by lia. reflexivity.
Qed.
Lemma enumerate_as_map {A} (d : A) (xs : list A) :
  combine (seq 0 (List.length xs)) xs = map (fun c => (c, nth c xs d)) (seq 0 (List.length xs)).
Proof.
  rewrite (enumerate_from_as_map d xs 0). apply map_ext. intros c. now rewrite Nat.sub_0_r.
Qed.

Lemma opt_concat_all_some {A B} (m : A -> option (list B)) (g : A -> list B) : forall l : list A,
  (forall x, In x l -> m x = Some (g x)) -> opt_concat (map m l) = Some (flat_map g l).
Proof.
  induction l as [|x l IH]; intros H; cbn [map opt_concat flat_map]; [reflexivity|].
  rewrite (H x (or_introl eq_refl)), IH; [reflexivity|]. intros y Hy. apply H. right; exact Hy.
Qed.

Lemma aget_nodup {V} : forall (d : list (Z * V)) k v, NoDup (map fst d) -> In (k, v) d -> aget d k = Some v.
Proof.
  induction d as [|[k0 v0] d IH]; intros k v Hnd Hin; [destruct Hin|].
  cbn [map fst] in Hnd. inversion Hnd as [|? ? Hn Hnd']; subst. cbn [aget].
  destruct Hin as [E|Hin].
  - injection E as -> ->. now rewrite Z.eqb_refl.
  - destruct (Z.eqb_spec k0 k) as [->|Hne]; [|apply IH; assumption].
    exfalso. apply Hn. apply (in_map fst _ _ Hin).
Qed.

Lemma NoDup_map_inj_in {A B} (g : A -> B) : forall l : list A,
  NoDup l -> (forall a b, In a l -> In b l -> g a = g b -> a = b) -> NoDup (map g l).
Proof.
  induction l as [|a l IH]; intros Hnd Hinj; cbn [map]; [constructor|].
  inversion Hnd as [|? ? Hn Hnd']; subst. constructor.
  - intros Hin. apply in_map_iff in Hin. destruct Hin as (b & Hb & Hbl).
    assert (b = a) by (apply Hinj; [right; exact Hbl | left; reflexivity | exact Hb]). subst. exact (Hn Hbl).
  - apply IH; [exact Hnd'|]. intros x y Hx Hy. apply Hinj; right; assumption.
Qed.

Lemma empty_from_enumerate {T} (mk : nat -> T) : forall (xs : list (list Z)) (s : nat),
  map (fun c => mk (Z.to_nat c)) (empty_from (Z.of_nat s) xs)
  = flat_map (fun cx : nat * list Z => if len (snd cx) =? 0 then [mk (fst cx)] else [])
             (combine (seq s (List.length xs)) xs).
Proof.
  induction xs as [|x xs IH]; intros s; cbn [empty_from List.length seq combine flat_map map]; [reflexivity|].
  replace (Z.of_nat s + 1) with (Z.of_nat (S s)) by lia. cbn [snd fst].
  destruct (len x =? 0); cbn [map app]; rewrite IH; [rewrite Nat2Z.id|]; reflexivity.
Qed.

Lemma combine_seq_map {A B} (g : A -> B) : forall (l : list A) (s : nat),
  combine (seq s (List.length (map g l))) (map g l)
  = map (fun jx : nat * A => (fst jx, g (snd jx))) (combine (seq s (List.length l)) l).
Proof.
  induction l as [|x l IH]; intros s; cbn [map List.length seq combine]; [reflexivity|].
  now rewrite IH.
Qed.

(* option-valued rows that are all defined and pointwise permutations of g *)
Lemma opt_concat_perm {A T} (m : A -> option (list T)) (g : A -> list T) : forall l : list A,
  (forall x, In x l -> exists t, m x = Some t /\ Permutation (g x) t) ->
  exists t, opt_concat (map m l) = Some t /\ Permutation (List.concat (map g l)) t.
Proof.
  induction l as [|x l IH]; intros H; cbn [map opt_concat List.concat].
  - exists []. split; [reflexivity | constructor].
  - destruct (H x (or_introl eq_refl)) as (t & Et & Pt).
    destruct IH as (t' & Et' & Pt'); [intros y Hy; apply H; right; exact Hy|].
    rewrite Et, Et'. exists (t ++ t')%list. split; [reflexivity | now apply Permutation_app].
Qed.

(* ---------------------------------------------------------------- one right row *)
Section Row.
  Variables (p : fparams) (op : string) (ae : bool) (Lo : list (list Z)) (y : list Z) (j : nat).
  Let d := cands p ae Lo y.
  Hypothesis Hnd : NoDup (map fst d).
  Hypothesis Hk : forall c, In c (map fst d) -> 0 <= c < Z.of_nat (List.length Lo).
  Hypothesis Hpc : forall c, (c < List.length Lo)%nat ->
    pos_cand p (nth c Lo []) y = Some (cval d (Z.of_nat c)).

  Definition tri (c : nat) : list triple :=
    if 0 <? cval d (Z.of_nat c) then
      let s := score p (nth c Lo []) y in
      if cmp_op op s (ft p) then [(c, j, s)] else []
    else [].

  Lemma tri_in c tr : In tr (tri c) -> tr = (c, j, snd tr).
  Proof.
    unfold tri. destruct (0 <? _); [|intros []]. cbv zeta.
    destruct (cmp_op op _ (ft p)); [|intros []]. intros [<-|[]]. reflexivity.
  Qed.

  Lemma model_cand_row :
    opt_concat (map (fun cx : nat * list Z =>
                  option_map (map (fun s => (fst cx, j, s))) (ssj_pair p op (snd cx) y)) (enumerate Lo))
    = Some (flat_map tri (seq 0 (List.length Lo))).
  Proof.
    unfold enumerate. rewrite (enumerate_as_map [] Lo), map_map. cbn [fst snd].
    apply opt_concat_all_some. intros c Hc. apply in_seq in Hc.
    unfold ssj_pair, tri. rewrite Hpc by lia. unfold score.
    destruct (0 <? cval d (Z.of_nat c)); [|reflexivity].
    cbv zeta. destruct (cmp_op op _ (ft p)); reflexivity.
  Qed.

  Lemma gen_cand_row :
    map (fun cs : Z * pyval => (Z.to_nat (fst cs), j, snd cs)) (flat_map (cand_hits p op Lo y) d)
    = flat_map tri (map Z.to_nat (map fst d)).
  Proof.
    rewrite map_flat_map, flat_map_concat_map, !map_map. f_equal. apply map_ext_in.
    intros [c v] Hin. unfold cand_hits, tri. cbn [fst snd].
    assert (Hc : 0 <= c) by (apply (Hk c), (in_map fst _ _ Hin)).
    rewrite Z2Nat.id by exact Hc.
    unfold cval. rewrite (aget_nodup d c v Hnd Hin).
    destruct (0 <? v); [|reflexivity]. cbv zeta.
    destruct (cmp_op op _ (ft p)); reflexivity.
  Qed.

  Lemma cand_row_perm :
    Permutation (flat_map tri (map Z.to_nat (map fst d))) (flat_map tri (seq 0 (List.length Lo))).
  Proof.
    apply perm_flat_map_keys.
    - apply NoDup_map_inj_in; [exact Hnd|]. intros a b Ha Hb E.
      pose proof (Hk a Ha). pose proof (Hk b Hb). lia.
    - intros c Hc. apply in_map_iff in Hc. destruct Hc as (k & <- & Hkin). specialize (Hk k Hkin). lia.
    - intros c Hc Hnot. unfold tri, cval.
      destruct (aget d (Z.of_nat c)) as [v|] eqn:E; [|reflexivity].
      exfalso. apply Hnot. apply in_map_iff. exists (Z.of_nat c). split; [apply Nat2Z.id|].
      eapply aget_in_keys. exact E.
  Qed.
End Row.

(* ---------------------------------------------------------------- the whole chunk *)
Section Whole.
  Variables (p : fparams) (op : string) (ae sc : bool).
  Variables (lrows rrows : list (list pyval)).
  Variables (lcolumns rcolumns lkeya rkeya ljoina rjoina louta routa lpre rpre showp : pyval).
  Variables (ki ji kj jj : nat) (li ri : list nat) (has : bool) (hdr : list pyval).
  Variables (tokenize : pyval -> pyval) (sim_fn : pyval -> pyval -> pyval).
  Variables (tkL tkR : list pyval -> list Z) (cf : pyval -> pyval -> pyval).
  (* raw token lists of the two tables: the input of the hand model *)
  Let L := map tkL lrows.
  Let R := map tkR rrows.
  Let all := (List.concat L ++ List.concat R)%list.
  Let xof (r : list pyval) := order all (tkL r).
  Let yof (r : list pyval) := order all (tkR r).
  Let Lo := map xof lrows.
  Let Ro := map yof rrows.
  Let ordering := PDict (ordering_dict all).

  Hypothesis Hlk : py_index lcolumns lkeya = natpy ki.
  Hypothesis Hlj : py_index lcolumns ljoina = natpy ji.
  Hypothesis Hlo : find_output_attribute_indices lcolumns louta = PList (map natpy li).
  Hypothesis Hrk : py_index rcolumns rkeya = natpy kj.
  Hypothesis Hrj : py_index rcolumns rjoina = natpy jj.
  Hypothesis Hro : find_output_attribute_indices rcolumns routa = PList (map natpy ri).
  Hypothesis Hhas : py_or (py_is_not_none louta) (py_is_not_none routa) = PBool has.
  Hypothesis Hnohas : has = false -> li = [] /\ ri = [].
  Hypothesis Hhdr : get_output_header_from_tables lkeya rkeya louta routa lpre rpre = PList hdr.
  Hypothesis Hlrows : forall r, In r lrows -> cols_ok ki ji li r.
  Hypothesis Hrrows : forall r, In r rrows -> cols_ok kj jj ri r.
  (* the tokenizer returns int lists on the join cells *)
  Hypothesis HtokL : forall r, In r lrows -> tokenize (nth ji r PNone) = pints (tkL r).
  Hypothesis HtokR : forall r, In r rrows -> tokenize (nth jj r PNone) = pints (tkR r).
  Hypothesis Hm : set_measure (fm p).
  Hypothesis Hvt : is_exc (validate_threshold (ft p) (PStr (fm p))) = false.
  Hypothesis Hop : comp_op_map op = Some cf.
  Hypothesis Hnum : num_of (ft p) <> None.
  Hypothesis HplL : forall x, In x Lo -> exists k, g_pl p (len x) = PInt k.
  Hypothesis HprR : forall y, In y Ro -> ae && (len y =? 0) = false -> probe_ok p y.
  Hypothesis Hsim : forall x y, In x Lo -> In y Ro ->
    sim_fn (pints x) (pints y) = PFloat (sim_tok (fm p) x y).

  Let a := build_abs p ae true Lo.

  (* the output row of a triple *)
  Definition triple_row (t : triple) : list pyval :=
    let '(c, j, s) := t in
    with_score sc s (row_cells ki kj li ri (nth c lrows []) (nth j rrows [])).

  Lemma tokenizes_tables :
    tokenizes [map PList lrows; map PList rrows] (PList [natpy ji; natpy jj]) tokenize
              (fun i row => match row with
                            | PList r => match i with O => tkL r | _ => tkR r end
                            | _ => [] end).
  Proof.
    intros i t row Hn Hin.
    destruct i as [|[|i]]; cbn [nth_error] in Hn; [| |destruct i; discriminate Hn];
      injection Hn as <-; apply in_map_iff in Hin; destruct Hin as (r & <- & Hr); (split; [reflexivity|]).
    - destruct (getitem_attr_list (natpy ji) (natpy jj)) as [E _]. rewrite E.
      destruct (join_cell_ok _ _ _ _ (Hlrows r Hr)) as [Ec _]. rewrite Ec. apply HtokL. exact Hr.
    - destruct (getitem_attr_list (natpy ji) (natpy jj)) as [_ E]. rewrite E.
      destruct (join_cell_ok _ _ _ _ (Hrrows r Hr)) as [Ec _]. rewrite Ec. apply HtokR. exact Hr.
  Qed.

  Lemma tab_tokens_all :
    tab_tokens (fun i row => match row with
                             | PList r => match i with O => tkL r | _ => tkR r end
                             | _ => [] end) 0 [map PList lrows; map PList rrows] = all.
  Proof.
    cbn [tab_tokens]. rewrite app_nil_r, !map_map. reflexivity.
  Qed.

  Lemma ordering_eq :
    gen_token_ordering_for_tables (PList [PList (map PList lrows); PList (map PList rrows)])
      (PList [natpy ji; natpy jj]) (PStr (fm p)) tokenize = ordering.
  Proof.
    change (PList [PList (map PList lrows); PList (map PList rrows)])
      with (enc_tables [map PList lrows; map PList rrows]).
    rewrite (gen_ordering_tables_eq _ _ _ _ _ tokenizes_tables), tab_tokens_all. reflexivity.
  Qed.

  Lemma ordered_L r : In r lrows ->
    order_using_token_ordering (tokenize (nth ji r PNone)) ordering = pints (xof r).
  Proof.
    intros Hr. rewrite (HtokL r Hr). apply order_using_token_ordering_spec, ordering_dict_lookup.
  Qed.
  Lemma ordered_R r : In r rrows ->
    order_using_token_ordering (tokenize (nth jj r PNone)) ordering = pints (yof r).
  Proof.
    intros Hr. rewrite (HtokR r Hr). apply order_using_token_ordering_spec, ordering_dict_lookup.
  Qed.

  (* what the generated loop returns (a), in the vocabulary of this file *)
  Lemma generated_rows :
    set_sim_join_rows (PList (map PList lrows)) (PList (map PList rrows)) lcolumns rcolumns lkeya rkeya
                      ljoina rjoina (PStr (fm p)) (ft p) (PStr op) (PBool ae) louta routa lpre rpre
                      (PBool sc) showp (PInt (fq p)) tokenize sim_fn
    = PTuple [PList (map PList (List.concat (map (fun r => rows_of p op ae sc ki kj li ri lrows Lo r (yof r)) rrows)));
              PList (hdr ++ if sc then [PStr "_sim_score"%string] else [])%list].
  Proof.
    apply (set_sim_join_rows_fold p op ae sc lrows rrows lcolumns rcolumns lkeya rkeya ljoina rjoina
             louta routa lpre rpre showp ki ji kj jj li ri has hdr tokenize sim_fn ordering xof yof cf);
      try assumption.
    - exact ordering_eq.
    - reflexivity.
    - exact ordered_L.
    - exact ordered_R.
  Qed.

  Lemma build_post' : forall w e, In e (idx_get (b_idx a) w) -> 0 <= fst e < len (b_sizes a).
  Proof.
    intros w e He. unfold a in *. rewrite build_postings in He. rewrite build_sizes.
    apply posts_from_rows in He. unfold nrows in He. unfold len. rewrite map_length. lia.
  Qed.

  (* (b) one right row: the model's list and the generated list are permutations *)
  Definition model_row (j : nat) (y : list Z) : list triple :=
    if ae && (len y =? 0) then
      flat_map (fun cx : nat * list Z =>
                  if len (snd cx) =? 0 then [(fst cx, j, PFloat f_one)] else []) (enumerate Lo)
    else flat_map (tri p op ae Lo y j) (seq 0 (List.length Lo)).

  Lemma model_row_bounds j y tr : In tr (model_row j y) ->
    (fst (fst tr) < List.length lrows)%nat /\ snd (fst tr) = j.
  Proof.
    unfold model_row. assert (El : List.length Lo = List.length lrows) by (unfold Lo; apply map_length).
    destruct (ae && (len y =? 0)); intros Hin; apply in_flat_map in Hin; destruct Hin as (x & Hx & Htr).
    - destruct (len (snd x) =? 0); [|destruct Htr]. destruct Htr as [<-|[]]. cbn [fst snd]. split; [|reflexivity].
      destruct x as [c xs]. apply in_combine_l in Hx. apply in_seq in Hx. cbn [fst]. lia.
    - apply in_seq in Hx. rewrite (tri_in p op ae Lo y j x tr Htr). cbn [fst snd]. split; [lia | reflexivity].
  Qed.

  Lemma row_refines (j : nat) (rrow : list pyval) : In rrow rrows ->
    (if ae && (len (yof rrow) =? 0) then
       Some (flat_map (fun cx : nat * list Z =>
                         if len (snd cx) =? 0 then [(fst cx, j, PFloat f_one)] else []) (enumerate Lo))
     else
       opt_concat (map (fun cx : nat * list Z =>
                     option_map (map (fun s => (fst cx, j, s))) (ssj_pair p op (snd cx) (yof rrow)))
                       (enumerate Lo))) = Some (model_row j (yof rrow)) /\
    Permutation (map (fun cs : Z * pyval => (Z.to_nat (fst cs), j, snd cs))
                     (row_pairs p op ae Lo (yof rrow))) (model_row j (yof rrow)).
  Proof.
    intros Hin. set (y := yof rrow).
    assert (Hy : In y Ro) by (unfold Ro, y; apply in_map; exact Hin).
    unfold row_pairs, model_row. destruct (ae && (len y =? 0)) eqn:Ebr.
    - split; [reflexivity|]. rewrite map_map. cbn [fst snd].
      change 0 with (Z.of_nat 0).
      rewrite (empty_from_enumerate (fun c => (c, j, PFloat f_one)) Lo 0). apply Permutation_refl.
    - destruct (HprR y Hy Ebr) as (lb & ub & k & Hlb & Hub & Hpl & Hot).
      assert (Ed : cands p ae Lo y
                   = probe_abs p (b_idx a) (b_sizes a) (b_min a) (b_max a) y lb ub k).
      { unfold cands. cbv zeta. fold a. rewrite Hlb, Hub, Hpl. reflexivity. }
      destruct (probe_abs_good p (b_idx a) (b_sizes a) (b_min a) (b_max a) y lb ub k build_post') as [Hnd Hk].
      rewrite <- Ed in Hnd, Hk.
      assert (Hk' : forall c, In c (map fst (cands p ae Lo y)) -> 0 <= c < Z.of_nat (List.length Lo)).
      { intros c Hc. specialize (Hk c Hc). unfold a in Hk. rewrite build_sizes in Hk.
        unfold len in Hk. rewrite map_length in Hk. exact Hk. }
      assert (Hpc : forall c, (c < List.length Lo)%nat ->
                pos_cand p (nth c Lo []) y = Some (cval (cands p ae Lo y) (Z.of_nat c))).
      { intros c Hc. unfold pos_cand.
        destruct (HplL (nth c Lo [])) as [kx Hkx]; [apply nth_In; exact Hc|].
        rewrite Hkx, Hpl, !slice0_PInt. f_equal. rewrite Ed. unfold a. rewrite build_sizes.
        rewrite (probe_abs_refines p Lo y (b_min (build_abs p ae true Lo)) (b_max (build_abs p ae true Lo))
                   lb ub k Hlb Hub (build_min_max_bounds p ae true Lo) (b_idx (build_abs p ae true Lo))
                   (build_postings p ae true Lo) c Hc).
        unfold plen. rewrite Hkx. reflexivity. }
      split; [apply (model_cand_row p op ae Lo y j Hpc)|].
      rewrite (gen_cand_row p op ae Lo y j Hnd Hk').
      apply (cand_row_perm p op ae Lo y j Hnd Hk').
  Qed.

  (* (c) the whole chunk *)
  Theorem set_sim_join_rows_refines :
    exists (T : list triple) (rows : list (list pyval)),
      set_sim_join_core p op ae L R = Some T /\
      set_sim_join_rows (PList (map PList lrows)) (PList (map PList rrows)) lcolumns rcolumns lkeya rkeya
                        ljoina rjoina (PStr (fm p)) (ft p) (PStr op) (PBool ae) louta routa lpre rpre
                        (PBool sc) showp (PInt (fq p)) tokenize sim_fn
      = PTuple [PList (map PList rows); PList (hdr ++ if sc then [PStr "_sim_score"%string] else [])%list] /\
      Permutation rows (map triple_row T) /\
      forall tr, In tr T -> (fst (fst tr) < List.length lrows)%nat /\ (snd (fst tr) < List.length rrows)%nat.
  Proof.
    set (g := fun jr : nat * list pyval =>
                map (fun cs : Z * pyval => (Z.to_nat (fst cs), fst jr, snd cs))
                    (row_pairs p op ae Lo (yof (snd jr)))).
    set (mr := fun jr : nat * list pyval => model_row (fst jr) (yof (snd jr))).
    exists (flat_map mr (enumerate rrows)). eexists.
    split; [|split; [apply generated_rows | split]].
    - (* the model, row by row *)
      unfold set_sim_join_core. fold all. cbv zeta.
      replace (map (order all) L) with Lo by (unfold Lo, L, xof; now rewrite map_map).
      change (enumerate R) with (combine (seq 0 (List.length (map tkR rrows))) (map tkR rrows)).
      rewrite combine_seq_map, map_map.
      apply opt_concat_all_some. intros [j rrow] Hjr. cbn [fst snd].
      assert (Hin : In rrow rrows) by (apply in_combine_r in Hjr; exact Hjr).
      fold (yof rrow). destruct (row_refines j rrow Hin) as [Et _]. exact Et.
    - (* rows ~ map triple_row (generated triples) ~ map triple_row T *)
      apply Permutation_trans with (map triple_row (List.concat (map g (enumerate rrows)))).
      + rewrite concat_map, map_map.
        apply (enumerate_from_perm (fun jr => map triple_row (g jr))
                 (fun r => rows_of p op ae sc ki kj li ri lrows Lo r (yof r)) rrows 0).
        intros j rrow Hjr. destruct (enumerate_nth [] rrows 0 j rrow Hjr) as [_ Hn].
        rewrite Nat.sub_0_r in Hn.
        unfold g, rows_of. cbn [fst snd]. rewrite map_map. cbn [fst snd triple_row].
        unfold out_row. rewrite Hn. apply Permutation_refl.
      + apply Permutation_map. rewrite flat_map_concat_map. apply perm_concat_forall2.
        unfold enumerate. generalize (seq 0 (List.length rrows)) as js.
        assert (Hall : forall r, In r rrows -> In r rrows) by auto. revert Hall.
        generalize rrows at 1 3 4 as rs.
        induction rs as [|r rs IH]; intros Hall js; destruct js as [|j js]; cbn [combine map]; try constructor.
        * unfold g, mr. cbn [fst snd]. apply (row_refines j r). apply Hall. left; reflexivity.
        * apply IH. intros r' Hr'. apply Hall. right; exact Hr'.
    - intros tr Htr. apply in_flat_map in Htr. destruct Htr as ([j rrow] & Hjr & Htr).
      unfold mr in Htr. cbn [fst snd] in Htr. destruct (model_row_bounds _ _ _ Htr) as [Hc Hj].
      split; [exact Hc|]. rewrite Hj. apply in_combine_l in Hjr. apply in_seq in Hjr. lia.
  Qed.
End Whole.

Print Assumptions row_refines.
Print Assumptions set_sim_join_rows_refines.
