(* JACCARD / COSINE / DICE instances of the pair-level refinement theorems (FilterPairRefine*.v):
   for every threshold in the envelope (env_t: valid double, 2^-30 <= t <= 1) and token lists
   shorter than size_bound = 2^20 the arithmetic hypotheses (`formulas_ok`, "the overlap threshold
   is a number") are discharged by IndexGlueArith.  Real-number reasoning is inherited from
   there: this file depends on the Reals / Flocq axioms (as F5_J etc.); the theorems it
   instantiates are axiom-free.                                                          *)
From Coq Require Import ZArith Bool List String Lia.
From SSJ Require Import F64 PyNum FilterUtilsGen HelperGen TokenOrderingGen FilterPairGen TokenOrdering Filters
     Measures JoinSpec ArithTight IndexPyFacts IndexGlue IndexGlueArith
     FilterPairRefineBase FilterPairRefine FilterPairRefinePos.
Import ListNotations.
Open Scope Z_scope.

Lemma ot_total_jcd m : is_jcd m = true -> ot_total m.
Proof.
  intros Hm. unfold is_jcd in Hm. apply orb_true_iff in Hm. destruct Hm as [Hm|Hm].
  - apply orb_true_iff in Hm. destruct Hm as [Hm|Hm]; apply String.eqb_eq in Hm; subst m;
      [apply ot_J | apply ot_C].
  - apply String.eqb_eq in Hm. subst m. apply ot_D.
Qed.

Lemma g_ot_jcd_num m t q a b : is_jcd m = true -> env_t t = true ->
  0 <= a < size_bound -> 0 <= b < size_bound ->
  num_of (g_ot {| fm := m; ft := PFloat t; fq := q |} a b) <> None.
Proof.
  intros Hm Ht Ha Hb.
  destruct (ot_total_jcd m Hm t q a b Ht) as [al Hal].
  - unfold UB, size_bound in *. assert (2 ^ 20 <= 2 ^ 84) by (vm_compute; discriminate). lia.
  - exact Hb.
  - unfold g_ot. cbn [fm ft fq]. unfold otZ in Hal. rewrite (toZ_PInt _ _ Hal). discriminate.
Qed.

Section Pair.
  Variables (tokenize : pyval -> pyval) (ls rs : pyval) (l r : list Z).
  Hypothesis Hsl : scalar ls.
  Hypothesis Hsr : scalar rs.
  Hypothesis Hml : missing ls = false.
  Hypothesis Hmr : missing rs = false.
  Hypothesis Hl : tokenize ls = pints l.
  Hypothesis Hr : tokenize rs = pints r.
  Variables (m : string) (t : f64) (q : Z).
  Hypothesis Hm : is_jcd m = true.
  Hypothesis Ht : env_t t = true.
  Let p := {| fm := m; ft := PFloat t; fq := q |}.

  Theorem size_filter_pair_gen_jcd (ae am : bool) : len l < size_bound ->
    size_filter_pair_gen (PStr m) (PFloat t) (PBool ae) (PBool am) ls rs tokenize
    = PBool (size_filter_pair p ae (len l) (len r)).
  Proof.
    intros Hbl.
    apply (size_filter_pair_gen_refines tokenize ls rs l r Hsl Hsr Hml Hmr Hl Hr p size_bound ae am).
    - apply formulas_ok_jcd; assumption.
    - exact Hbl.
  Qed.

  Theorem prefix_filter_pair_gen_jcd (ae am : bool) : len l < size_bound -> len r < size_bound ->
    exists b, prefix_filter_pair p ae l r = Some b /\
      prefix_filter_pair_gen (PStr m) (PFloat t) (PBool ae) (PBool am) ls rs (PInt q) tokenize = PBool b.
  Proof.
    intros Hbl Hbr.
    apply (prefix_filter_pair_gen_refines tokenize ls rs l r Hsl Hsr Hml Hmr Hl Hr p size_bound ae am).
    - apply formulas_ok_jcd; assumption.
    - exact Hbl.
    - exact Hbr.
  Qed.

  Theorem position_filter_pair_gen_jcd (ae am : bool) : len l < size_bound -> len r < size_bound ->
    exists b, position_filter_pair p ae l r = Some b /\
      position_filter_pair_gen (PStr m) (PFloat t) (PBool ae) (PBool am) ls rs (PInt q) tokenize = PBool b.
  Proof.
    intros Hbl Hbr.
    apply (position_filter_pair_gen_refines tokenize ls rs l r Hsl Hsr Hml Hmr Hl Hr p size_bound ae am).
    - apply formulas_ok_jcd; assumption.
    - exact Hbl.
    - exact Hbr.
    - apply g_ot_jcd_num; try assumption; split; try assumption; apply len_nonneg'.
  Qed.
End Pair.

Print Assumptions size_filter_pair_gen_jcd.
Print Assumptions prefix_filter_pair_gen_jcd.
Print Assumptions position_filter_pair_gen_jcd.
