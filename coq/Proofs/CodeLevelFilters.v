(* Code-level property theorems, part 3: filter_tables of SizeFilter / PrefixFilter / PositionFilter
   (C04, plus C08 / C09 / C14-soundness) and of OverlapFilter (C06), stated DIRECTLY about the GENERATED
   definitions size/prefix/position/overlap_filter_tables_rows (Gen/FilterWrapperGen.v).

   (A) FilterWrapperRefine.X_filter_tables_rows_refines + WrapperEnd.end_of_body,
       FilterWrapperRefineOverlap.overlap_filter_tables_rows_end_to_end_flat
   (B) ApiFilterClosed.C04_filter_tables, C04_filter_tables_edit_qgram, C06_overlap_filter_tables.

   FINDING (encoding mismatch, repaired here): the published end-to-end statements for the three filters
   (FilterWrapperRefine.flt_jcase, and so FilterWrapperRefineClosed.filter_tables_rows_end_to_end_ed) build
   the model's rows with an EMPTY string component (str = fun _ => []), which is all api_join's EFilter
   entry reads; but the EDIT_DISTANCE clause of complete_spec, and C04_filter_tables_edit_qgram's
   `qgram_rows`, speak of the strings (str_of).  With empty strings qgram_rows forces every token list to be
   the q-gram bag of "" -- the two halves do not compose as published.  `flt_flat_str` below re-derives the
   end-to-end statement for an ARBITRARY string abstraction str (the per-chunk refinement theorems do not
   depend on it), `flt_code_jcase_nostr` shows it is the published one at str = fun _ => [].           *)
From Coq Require Import ZArith Bool List String Lia Permutation SpecFloat.
From SSJ Require Import F64 PyNum FilterUtilsGen HelperGen TokenOrderingGen ValidationGen IndexGen JoinGen
     TokenOrdering Measures Filters Lev Qgram Joins Api JoinSpec MetaSpec Projection ProjSpec IndexPyFacts ProjectionFacts
     JoinGenFacts JoinGenLoop JoinRefine JoinRefineProj SplitFacts Frame WrapperGen FilterWrapperGen
     WrapperRefineFrame WrapperRefineMissing WrapperRefineCore WrapperRefineChunks WrapperRefine WrapperRefineClosed
     WrapperRefineApi WrapperBody WrapperApiLink WrapperEnd
     FilterWrapperRefineOverlap FilterWrapperRefine
     OrderingFacts OverlapFacts OverlapMeasure EditArith EditJoin IndexGlue IndexGlueArith
     ApiLift ApiFilterBase ApiFilterOverlap ApiFilterTables ApiFilterJCD ApiFilterEdit ApiFilterClosed
     CodeLevelBase CodeLevelJoins CodeLevelJoins2.
Import ListNotations.
Open Scope Z_scope.

(* every finite table has a bound on its token counts *)
Lemma lens_bounded {A} (g : A -> list Z) (l : list A) : exists b, forall x, In x l -> len (g x) < b.
Proof.
  induction l as [|a l (b & Hb)]; [exists 0; intros x []|].
  exists (Z.max b (len (g a) + 1)). intros x [<- | Hx]; [lia|]. specialize (Hb x Hx). lia.
Qed.

Section FltStr.
  Variables (c : pcase) (p : fparams) (op : string) (ae am : bool) (njobs cpus : Z).
  Variables (lsrc rsrc : list (list pyval)) (showp : pyval).
  Variables (tokenize : pyval -> pyval).
  Variables (toks str : pyval -> list Z) (kz : pyval -> Z).

  (* hypotheses of FilterWrapperRefine (the filters return no score column) *)
  Hypothesis Hwf : well_formed c.
  Hypothesis Hns : p_score c = false.
  Hypothesis Hlsrc : forall row, In row lsrc -> List.length row = List.length (p_lcols c) /\ ProjSpec.row_ok row.
  Hypothesis Hrsrc : forall row, In row rsrc -> List.length row = List.length (p_rcols c) /\ ProjSpec.row_ok row.
  Hypothesis HtokL : forall row, In row (lpresent c lsrc) -> tokenize (lcell c row) = pints (toks (lcell c row)).
  Hypothesis HtokR : forall row, In row (rpresent c rsrc) -> tokenize (rcell c row) = pints (toks (rcell c row)).
  Hypothesis Hvout : is_exc (validate_output_attrs (py_opt_strs (p_lout c)) (py_strs (p_lcols c))
                                                   (py_opt_strs (p_rout c)) (py_strs (p_rcols c))) = false.
  Hypothesis Hid : ~ In "_id"%string (mv_header c).
  (* extra (size_ok of the model-level theorems; implies Hn of the end-to-end theorem) *)
  Hypothesis HlenRt : Z.of_nat (List.length rsrc) < 2^31.

  Definition flt_code_jcase (k : fkind) : jcase :=
    {| j_entry := EFilter k (fm p); j_t := ft p; j_q := fq p; j_op := op; j_allow_empty := ae;
       j_allow_missing := am; j_with_score := false; j_njobs := njobs; j_cpus := cpus;
       j_L := map (arowLs c toks str kz) lsrc; j_R := map (arowRs c toks str kz) rsrc |}.

  Definition flt_call (k : fkind) : pyval :=
    match k with
    | KSize => size_call c p ae am njobs cpus lsrc rsrc showp tokenize
    | KPrefix => prefix_call c p ae am njobs cpus lsrc rsrc showp tokenize
    | KPosition => position_call c p ae am njobs cpus lsrc rsrc showp tokenize
    | KSuffix => PNone
    end.

  Lemma flt_core_of_str k ch : (forall row, In row ch -> In row (rpresent c rsrc)) ->
    core_of (flt_code_jcase k) (map (arowLs c toks str kz) (lpresent c lsrc)) (map (arowRs c toks str kz) ch)
    = flt_K c p ae lsrc toks k ch.
  Proof.
    intros Hch. unfold core_of, flt_code_jcase, flt_K. cbn [j_entry j_op j_t j_q j_allow_empty].
    rewrite (toksLs c lsrc toks str kz), (toksRs c rsrc toks str kz ch Hch).
    rewrite fparams_eta. reflexivity.
  Qed.

  Lemma flt_end_str k lhs :
    body_result c am njobs cpus lsrc rsrc
      (split_bs (kjobs c njobs cpus rsrc) (Z.of_nat (List.length (rpresent c rsrc))))
      (chunk_ok c lsrc (flt_K c p ae lsrc toks k)) lhs ->
    end_to_end_flat c am lsrc rsrc toks str kz (flt_code_jcase k) lhs.
  Proof using Hwf Hns Hlsrc Hrsrc HlenRt.
    intros Hb. apply chunks_flat.
    apply (end_of_body c am njobs cpus lsrc rsrc toks str kz (flt_code_jcase k) (flt_K c p ae lsrc toks k)
             Hwf Hlsrc Hrsrc); try reflexivity.
    - cbn [j_with_score flt_code_jcase]. symmetry. exact Hns.
    - exact (flt_core_of_str k).
    - exact (rpres_bound c rsrc HlenRt).
    - exact Hb.
  Qed.

  (* the end-to-end statement of the three filters, for ANY string abstraction *)
  Theorem flt_flat_str (bound : Z) k : k3 k -> formulas_ok p bound ->
    (forall row, In row (lpresent c lsrc) -> len (toks (lcell c row)) < bound) ->
    (forall row, In row (rpresent c rsrc) -> len (toks (rcell c row)) < bound) ->
    end_to_end_flat c am lsrc rsrc toks str kz (flt_code_jcase k) (flt_call k).
  Proof using All.
    intros Hk Hf HszL HszR. apply flt_end_str.
    pose proof (rpres_bound c rsrc HlenRt) as Hn.
    destruct Hk as [-> | [-> | ->]]; cbn [flt_call].
    - apply (size_filter_tables_rows_refines c p ae am bound njobs cpus lsrc rsrc showp tokenize toks); try assumption.
      intros Hk. apply split_hyp; assumption.
    - apply (prefix_filter_tables_rows_refines c p ae am bound njobs cpus lsrc rsrc showp tokenize toks); try assumption.
      intros Hk. apply split_hyp; assumption.
    - apply (position_filter_tables_rows_refines c p ae am bound njobs cpus lsrc rsrc showp tokenize toks); try assumption.
      intros Hk. apply split_hyp; assumption.
  Qed.

  (* the conclusion shared by all measures: from the four specs of the model to the code *)
  Lemma flt_conclude k :
    end_to_end_flat c am lsrc rsrc toks str kz (flt_code_jcase k) (flt_call k) ->
    (forall out, api_join (flt_code_jcase k) = Some out -> all_specs (flt_code_jcase k) out) ->
    code_join_conclusion c am lsrc rsrc kz (flt_code_jcase k) (flt_call k).
  Proof using Hns.
    intros HA HB. split.
    - exact (code_level_four_specs c am lsrc rsrc toks str kz (flt_code_jcase k) _ HA HB).
    - apply (code_level_four_specs_kview c am lsrc rsrc toks str kz (flt_code_jcase k)); try assumption.
      + cbn [j_with_score flt_code_jcase]. symmetry. exact Hns.
      + reflexivity.
  Qed.

  Lemma flt_keys_ok k : keys_unique c kz lsrc rsrc -> keys_ok (flt_code_jcase k).
  Proof.
    intros (HkL & HkR). split; unfold flt_code_jcase; cbn [j_L j_R]; [rewrite keysL | rewrite keysR]; assumption.
  Qed.
  Lemma flt_size_ok k : size_ok (flt_code_jcase k).
  Proof using HlenRt. unfold size_ok, flt_code_jcase. cbn [j_R]. rewrite map_length. exact HlenRt. Qed.

  Lemma flt_rows_ok k : set_cells c toks lsrc rsrc -> rows_ok (flt_code_jcase k).
  Proof.
    intros (HsL & HsR). split; unfold flt_code_jcase; cbn [j_L j_R].
    - intros l Hl. destruct (present l) eqn:Pl.
      + destruct (arowLs_present c lsrc toks str kz l Hl Pl) as (row & Hrow & Et & _). rewrite Et. exact (HsL row Hrow).
      + rewrite (absent_toks l Pl). split; [constructor | reflexivity].
    - intros r Hr. destruct (present r) eqn:Pr.
      + destruct (arowRs_present c rsrc toks str kz r Hr Pr) as (row & Hrow & Et & _). rewrite Et. exact (HsR row Hrow).
      + rewrite (absent_toks r Pr). split; [constructor | reflexivity].
  Qed.
End FltStr.

(* at str = fun _ => [] this is the case of the published end-to-end theorems *)
Lemma flt_code_jcase_nostr c p op ae am njobs cpus lsrc rsrc toks kz k :
  flt_code_jcase c p op ae am njobs cpus lsrc rsrc toks (fun _ => []) kz k
  = flt_jcase c p op ae am njobs cpus lsrc rsrc toks kz k.
Proof. reflexivity. Qed.

(* ================================================================== C04: J/C/D and OVERLAP measures *)
Section CodeFilters.
  Variables (c : pcase) (op : string) (ae am : bool) (njobs cpus : Z).
  Variables (lsrc rsrc : list (list pyval)) (showp : pyval).
  Variables (tokenize : pyval -> pyval).
  Variables (toks : pyval -> list Z) (kz : pyval -> Z).

  Hypothesis Hwf : well_formed c.
  Hypothesis Hns : p_score c = false.
  Hypothesis Hlsrc : forall row, In row lsrc -> List.length row = List.length (p_lcols c) /\ ProjSpec.row_ok row.
  Hypothesis Hrsrc : forall row, In row rsrc -> List.length row = List.length (p_rcols c) /\ ProjSpec.row_ok row.
  Hypothesis HtokL : forall row, In row (lpresent c lsrc) -> tokenize (lcell c row) = pints (toks (lcell c row)).
  Hypothesis HtokR : forall row, In row (rpresent c rsrc) -> tokenize (rcell c row) = pints (toks (rcell c row)).
  Hypothesis Hvout : is_exc (validate_output_attrs (py_opt_strs (p_lout c)) (py_strs (p_lcols c))
                                                   (py_opt_strs (p_rout c)) (py_strs (p_rcols c))) = false.
  Hypothesis Hid : ~ In "_id"%string (mv_header c).
  (* extra, for valid_filter_case *)
  Hypothesis HlenRt : Z.of_nat (List.length rsrc) < 2^31.
  Hypothesis Hkeys : keys_unique c kz lsrc rsrc.
  Hypothesis Hset : set_cells c toks lsrc rsrc.

  Lemma flt_code_generic (p : fparams) (k : fkind) : k3 k -> formulas_ok p size_bound -> thr_ok (fm p) (ft p) ->
    code_join_conclusion c am lsrc rsrc kz
      (flt_code_jcase c p op ae am njobs cpus lsrc rsrc toks (fun _ => []) kz k)
      (flt_call c p ae am njobs cpus lsrc rsrc showp tokenize k).
  Proof using All.
    intros Hk Hf Hthr.
    destruct (set_cells_below c toks lsrc rsrc size_bound ltac:(lia) Hset) as (HszL & HszR).
    apply (flt_conclude c p op ae am njobs cpus lsrc rsrc showp tokenize toks (fun _ => []) kz Hns k).
    - apply (flt_flat_str c p op ae am njobs cpus lsrc rsrc showp tokenize toks (fun _ => []) kz
               Hwf Hns Hlsrc Hrsrc HtokL HtokR Hvout Hid HlenRt size_bound k Hk Hf HszL HszR).
    - assert (Hv : valid_filter_case (flt_code_jcase c p op ae am njobs cpus lsrc rsrc toks (fun _ => []) kz k) k (fm p)).
      { split; [reflexivity|]. split; [exact Hk|]. split; [apply flt_size_ok; exact HlenRt|].
        split; [apply flt_keys_ok; exact Hkeys|]. split; [apply flt_rows_ok; exact Hset | exact Hthr]. }
      exact (proj2 (C04_filter_tables _ k (fm p) Hv)).
  Qed.

  (* C04 (+ C08, C09, C14 soundness) for JACCARD / COSINE / DICE, any double threshold in the envelope *)
  Theorem C04_code_filter_tables_jcd (m : string) (t : f64) (q : Z) (k : fkind) :
    k3 k -> is_jcd m = true -> env_t t = true ->
    let p := {| fm := m; ft := PFloat t; fq := q |} in
    code_join_conclusion c am lsrc rsrc kz
      (flt_code_jcase c p op ae am njobs cpus lsrc rsrc toks (fun _ => []) kz k)
      (flt_call c p ae am njobs cpus lsrc rsrc showp tokenize k).
  Proof using All.
    intros Hk Hm Ht p. apply flt_code_generic; [exact Hk | apply formulas_ok_jcd; assumption|].
    apply (thr_jcd m _ t); [exact Hm | reflexivity | exact Ht].
  Qed.

  (* ... and for the OVERLAP measure with an integer threshold T >= 1 *)
  Theorem C04_code_filter_tables_overlap (T q : Z) (k : fkind) :
    k3 k -> 1 <= T ->
    code_join_conclusion c am lsrc rsrc kz
      (flt_code_jcase c (ovp T q) op ae am njobs cpus lsrc rsrc toks (fun _ => []) kz k)
      (flt_call c (ovp T q) ae am njobs cpus lsrc rsrc showp tokenize k).
  Proof using All.
    intros Hk HT. apply flt_code_generic; [exact Hk | apply formulas_ok_overlap|].
    apply (thr_ov "OVERLAP" _ T); [reflexivity | reflexivity | exact HT].
  Qed.
End CodeFilters.

(* ================================================================== C04 under EDIT_DISTANCE *)
Section CodeFiltersEd.
  Variables (c : pcase) (op : string) (ae am : bool) (njobs cpus : Z).
  Variables (lsrc rsrc : list (list pyval)) (showp : pyval).
  Variables (tokenize : pyval -> pyval).
  Variables (toks str : pyval -> list Z) (kz : pyval -> Z).
  Variables (tk : qgram_tok) (f : Z -> Z) (tau : Z).

  Hypothesis Hwf : well_formed c.
  Hypothesis Hns : p_score c = false.
  Hypothesis Hlsrc : forall row, In row lsrc -> List.length row = List.length (p_lcols c) /\ ProjSpec.row_ok row.
  Hypothesis Hrsrc : forall row, In row rsrc -> List.length row = List.length (p_rcols c) /\ ProjSpec.row_ok row.
  (* tokenizer in BAG mode *)
  Hypothesis HtokL : forall row, In row (lpresent c lsrc) -> tokenize (lcell c row) = pints (toks (lcell c row)).
  Hypothesis HtokR : forall row, In row (rpresent c rsrc) -> tokenize (rcell c row) = pints (toks (rcell c row)).
  Hypothesis Hvout : is_exc (validate_output_attrs (py_opt_strs (p_lout c)) (py_strs (p_lcols c))
                                                   (py_opt_strs (p_rout c)) (py_strs (p_rcols c))) = false.
  Hypothesis Hid : ~ In "_id"%string (mv_header c).
  Hypothesis Htau : 0 <= tau.
  Hypothesis Hq : 1 <= qq tk.
  (* extra, for valid_edf_case / qgram_rows *)
  Hypothesis HlenRt : Z.of_nat (List.length rsrc) < 2^31.
  Hypothesis Hkeys : keys_unique c kz lsrc rsrc.
  Hypothesis Hinj : forall a b, f a = f b -> a = b.
  Hypothesis Hqgram : cells_sat c lsrc rsrc (fun v => toks v = map f (qgram_bag tk (str v))).

  (* every pair of strings within edit distance tau whose q-gram bags share a q-gram is a candidate of
     SizeFilter / PrefixFilter / PositionFilter (complete_spec, EDIT_DISTANCE clause), + C08 / C09 / C14 *)
  Theorem C04_code_filter_tables_edit_distance (k : fkind) : k3 k ->
    let p := edp (qq tk) tau in
    code_join_conclusion c am lsrc rsrc kz
      (flt_code_jcase c p op ae am njobs cpus lsrc rsrc toks str kz k)
      (flt_call c p ae am njobs cpus lsrc rsrc showp tokenize k).
  Proof using All.
    intros Hk p.
    destruct (lens_bounded (fun row => toks (lcell c row)) (lpresent c lsrc)) as (b1 & Hb1).
    destruct (lens_bounded (fun row => toks (rcell c row)) (rpresent c rsrc)) as (b2 & Hb2).
    apply (flt_conclude c p op ae am njobs cpus lsrc rsrc showp tokenize toks str kz Hns k).
    - apply (flt_flat_str c p op ae am njobs cpus lsrc rsrc showp tokenize toks str kz
               Hwf Hns Hlsrc Hrsrc HtokL HtokR Hvout Hid HlenRt (Z.max b1 b2) k Hk).
      + apply formulas_ok_ed; assumption.
      + intros row Hr. specialize (Hb1 row Hr). cbv beta in Hb1. lia.
      + intros row Hr. specialize (Hb2 row Hr). cbv beta in Hb2. lia.
    - apply (C04_filter_tables_edit_qgram tk f _ k tau Hinj).
      + reflexivity.
      + split; [reflexivity|]. split; [exact Hk|]. split; [reflexivity|]. split; [exact Htau|].
        split; [exact Hq|]. split; [apply flt_keys_ok; exact Hkeys | apply flt_size_ok; exact HlenRt].
      + destruct Hqgram as (HL & HR). split.
        * intros l Hl Pl. destruct (arowLs_present c lsrc toks str kz l Hl Pl) as (row & Hrow & Et & Es).
          unfold qrow_ok, rowval. cbn [fst snd]. rewrite Et, Es. apply HL. exact Hrow.
        * intros r Hr Pr. destruct (arowRs_present c rsrc toks str kz r Hr Pr) as (row & Hrow & Et & Es).
          unfold qrow_ok, rowval. cbn [fst snd]. rewrite Et, Es. apply HR. exact Hrow.
  Qed.
End CodeFiltersEd.

(* ================================================================== C06: OverlapFilter.filter_tables *)
Definition ovf_exact (jc : jcase) (obs : list Api.out_row) : Prop :=
  four_specs jc obs /\
  forall l r, In l (j_L jc) -> In r (j_R jc) -> present l = true -> present r = true ->
    has_pair (fst l) (fst r) obs = cmp_op (j_op jc) (PInt (overlap_sets (toks_of l) (toks_of r))) (j_t jc).
Lemma ovf_exact_invariant jc : perm_invariant (ovf_exact jc).
Proof.
  intros a b P (H1 & H2). split; [exact (four_specs_perm jc a b P H1)|].
  intros l r Hl Hr Pl Pr. rewrite <- (has_pair_perm (fst l) (fst r) a b P). exact (H2 l r Hl Hr Pl Pr).
Qed.

Section CodeOverlapFilter.
  Variables (c : pcase) (T : Z) (op : string) (ae am : bool) (q njobs cpus : Z).
  Variables (lsrc rsrc : list (list pyval)) (showp : pyval).
  Variables (tokenize : pyval -> pyval).
  Variables (toks : pyval -> list Z) (cf : pyval -> pyval -> pyval) (kz : pyval -> Z).

  Hypothesis Hwf : well_formed c.
  Hypothesis Hlsrc : forall row, In row lsrc -> List.length row = List.length (p_lcols c) /\ ProjSpec.row_ok row.
  Hypothesis Hrsrc : forall row, In row rsrc -> List.length row = List.length (p_rcols c) /\ ProjSpec.row_ok row.
  Hypothesis HtokL : forall row, In row (lpresent c lsrc) -> tokenize (lcell c row) = pints (toks (lcell c row)).
  Hypothesis HtokR : forall row, In row (rpresent c rsrc) -> tokenize (rcell c row) = pints (toks (rcell c row)).
  Hypothesis Hvout : is_exc (validate_output_attrs (py_opt_strs (p_lout c)) (py_strs (p_lcols c))
                                                   (py_opt_strs (p_rout c)) (py_strs (p_rcols c))) = false.
  Hypothesis Hop : comp_op_map op = Some cf.
  Hypothesis Hid : ~ In "_id"%string (mv_header c).
  (* extra, for valid_ovf_case: filter_tables itself validates neither the operator nor the size (the
     constructor does): integer size T >= 1, operator >=, > or =; unique keys; set tokenizer *)
  Hypothesis HT : 1 <= T.
  Hypothesis Hlow : lower_op op.
  Hypothesis HlenRt : Z.of_nat (List.length rsrc) < 2^31.
  Hypothesis Hkeys : keys_unique c kz lsrc rsrc.
  Hypothesis Hnodup : cells_sat c lsrc rsrc (fun v => NoDup (toks v)).

  Definition ovf_code_jcase : jcase :=
    ovf_jcase c (PInt T) op ae am q njobs cpus lsrc rsrc toks kz EOverlapFilter.

  Lemma ovf_valid : valid_ovf_case ovf_code_jcase.
  Proof using HT Hlow HlenRt Hkeys Hnodup.
    split; [reflexivity|]. split.
    { unfold size_ok, ovf_code_jcase, ovf_jcase. cbn [j_R]. rewrite map_length. exact HlenRt. }
    split.
    { destruct Hkeys as (HkL & HkR). split; unfold ovf_code_jcase, ovf_jcase; cbn [j_L j_R].
      - change (NoDup (map fst (map (arowLs c toks (fun _ => []) kz) lsrc))). rewrite keysL. exact HkL.
      - change (NoDup (map fst (map (arowRs c toks (fun _ => []) kz) rsrc))). rewrite keysR. exact HkR. }
    split.
    { destruct Hnodup as (HL & HR). split; unfold ovf_code_jcase, ovf_jcase; cbn [j_L j_R].
      - intros l Hl. destruct (present l) eqn:Pl.
        + destruct (arowLs_present c lsrc toks (fun _ => []) kz l Hl Pl) as (row & Hrow & Et & _). rewrite Et. exact (HL row Hrow).
        + rewrite (absent_toks l Pl). constructor.
      - intros r Hr. destruct (present r) eqn:Pr.
        + destruct (arowRs_present c rsrc toks (fun _ => []) kz r Hr Pr) as (row & Hrow & Et & _). rewrite Et. exact (HR row Hrow).
        + rewrite (absent_toks r Pr). constructor. }
    exists T. split; [reflexivity|]. split; [exact HT | exact Hlow].
  Qed.

  (* the candidate set is EXACTLY the pairs of present values whose overlap satisfies the operator, each once,
     with the overlap as score when out_sim_score; + missing pairs (C08), no empty pairs (C09) *)
  Theorem C06_code_overlap_filter_tables :
    code_result c am lsrc rsrc kz (ovf_call c (PInt T) op am njobs cpus lsrc rsrc showp tokenize)
                (ovf_exact ovf_code_jcase) /\
    code_result_kview c kz (ovf_call c (PInt T) op am njobs cpus lsrc rsrc showp tokenize)
                (four_specs ovf_code_jcase).
  Proof using All.
    assert (Hnum : num_of (PInt T) <> None) by discriminate.
    pose proof (overlap_filter_tables_rows_end_to_end_flat c (PInt T) op ae am q njobs cpus lsrc rsrc showp tokenize
                  toks cf kz Hwf Hlsrc Hrsrc HtokL HtokR Hvout Hop Hnum Hid (rpres_bound c rsrc HlenRt)) as HA.
    assert (HB : forall out, api_join ovf_code_jcase = Some out -> ovf_exact ovf_code_jcase out).
    { intros out Ho. exact (proj2 (C06_overlap_filter_tables ovf_code_jcase ovf_valid) out Ho). }
    split.
    - exact (code_level_transfer c am lsrc rsrc toks (fun _ => []) kz ovf_code_jcase _ _
               (ovf_exact_invariant ovf_code_jcase) HA HB).
    - apply (code_level_four_specs_kview c am lsrc rsrc toks (fun _ => []) kz ovf_code_jcase).
      + reflexivity.
      + exact I.
      + exact HA.
      + intros out Ho. exact (proj1 (HB out Ho)).
  Qed.
End CodeOverlapFilter.

Print Assumptions flt_flat_str.
Print Assumptions C04_code_filter_tables_jcd.
Print Assumptions C04_code_filter_tables_overlap.
Print Assumptions C04_code_filter_tables_edit_distance.
Print Assumptions C06_code_overlap_filter_tables.
