(* Code-level RELATIONAL property theorems, part 1: the per-call bundles for the GENERATED wrappers
   overlap_coefficient_join_rows and overlap_join_rows (the J/C/D bundle is CodeLevelRelBase.jcd_call_facts), the
   transposed projection case, and the spec-level laws of Laws*.v / ModelLaws.v restated for frames returned by
   calls (`call_facts`).  The hypotheses of a call are exactly those of the tight code-level theorems
   (CodeLevelTight.v), packed into ONE proposition per wrapper so that theorems about two or three calls can
   state them for every call.                                                                              *)
From Coq Require Import ZArith Bool List String Lia Permutation.
From SSJ Require Import F64 PyNum FilterUtilsGen HelperGen TokenOrderingGen ValidationGen IndexGen JoinGen
     TokenOrdering Measures Filters Joins Api JoinSpec MetaSpec Projection ProjSpec IndexPyFacts ProjectionFacts
     JoinGenFacts JoinGenLoop JoinRefine JoinRefineProj SplitFacts Frame WrapperGen FilterWrapperGen
     WrapperRefineFrame WrapperRefineMissing WrapperRefineCore WrapperRefineChunks WrapperRefine WrapperRefineClosed
     WrapperRefineApi WrapperRefineEnd WrapperBody WrapperApiLink WrapperEnd
     WrapperRefineOvc FilterWrapperRefineOverlap
     OrderingFacts OverlapFacts OverlapMeasure ValidationFacts
     ApiLift ApiJoinBase ApiJoinPairs ApiJoinSpec PartitionInst LawsBase LawsScore LawsSpec Laws ModelScores ModelLaws
     CodeLevelBase CodeLevelJoins CodeLevelJoins2 CodeLevelTight CodeLevelRelBase.
Import ListNotations.
Open Scope string_scope.
Open Scope list_scope.
Open Scope Z_scope.

(* ================================================================== overlap coefficient *)
Section OvcCall.
  Variables (c : pcase) (p : fparams) (op : string) (ae am : bool) (njobs cpus : Z).
  Variables (lsrc rsrc : list (list pyval)) (showp : pyval).
  Variables (tokenize : pyval -> pyval).
  Variables (toks : pyval -> list Z) (cf : pyval -> pyval -> pyval) (kz : pyval -> Z).

  (* the hypotheses of C01_C02_code_overlap_coefficient_tight about one call (none mentions ae, am, n_jobs, cpus) *)
  Definition ovc_call_hyps : Prop :=
    well_formed c /\
    (forall row, In row lsrc -> List.length row = List.length (p_lcols c) /\ ProjSpec.row_ok row) /\
    (forall row, In row rsrc -> List.length row = List.length (p_rcols c) /\ ProjSpec.row_ok row) /\
    (forall row, In row (lpresent c lsrc) -> tokenize (lcell c row) = pints (toks (lcell c row))) /\
    (forall row, In row (rpresent c rsrc) -> tokenize (rcell c row) = pints (toks (rcell c row))) /\
    fm p = "OVERLAP_COEFFICIENT" /\
    is_exc (validate_threshold (ft p) (PStr "OVERLAP_COEFFICIENT")) = false /\
    is_exc (validate_comp_op_for_sim_measure (PStr op) (PStr "OVERLAP_COEFFICIENT")) = false /\
    is_exc (validate_output_attrs (py_opt_strs (p_lout c)) (py_strs (p_lcols c))
                                  (py_opt_strs (p_rout c)) (py_strs (p_rcols c))) = false /\
    comp_op_map op = Some cf /\
    num_of (ft p) <> None /\
    ~ In "_id" (mv_header c) /\
    (forall row, In row (lpresent c lsrc) -> len (toks (lcell c row)) < 2^50) /\
    (forall row, In row (rpresent c rsrc) -> len (toks (rcell c row)) < 2^50) /\
    Z.of_nat (List.length (rpresent c rsrc)) < 2^31 /\
    keys_unique c kz lsrc rsrc /\
    cells_sat c lsrc rsrc (fun v => NoDup (toks v)).

  Hypothesis H : ovc_call_hyps.

  Lemma ovc_call_valid : valid_join_case_weak (ovc_code_jcase c p op ae am njobs cpus lsrc rsrc toks kz).
  Proof using H.
    destruct H as (Hwf & Hl & Hr & HtL & HtR & Hfm & Hvt & Hvop & Hvout & Hop & Hnum & Hid & HszL & HszR & Hn & Hkeys & Hnodup).
    split; [exact (lower_op_of_valid op "OVERLAP_COEFFICIENT" eq_refl Hvop)|].
    exists "OVERLAP_COEFFICIENT". split.
    { unfold ovc_code_jcase, jcase_of. cbn [j_entry]. now rewrite Hfm. }
    split; [right; right; split; [reflexivity | exact (ovc_pos_of_valid (ft p) Hvt)]|].
    apply (tables_ok_weak_of c lsrc rsrc toks kz (ovc_code_jcase c p op ae am njobs cpus lsrc rsrc toks kz) eq_refl eq_refl _ Hkeys); [|exact Hn].
    destruct Hnodup as (HL & HR). split; intros row Hrow; (split; [auto | discriminate]).
  Qed.

  Theorem ovc_call_facts :
    call_facts c kz (ovc_code_jcase c p op ae am njobs cpus lsrc rsrc toks kz)
               (ovc_call c p op ae am njobs cpus lsrc rsrc showp tokenize) /\
    call_model c kz (ovc_code_jcase c p op ae am njobs cpus lsrc rsrc toks kz)
               (ovc_call c p op ae am njobs cpus lsrc rsrc showp tokenize).
  Proof using H.
    apply (code_call_facts c am lsrc rsrc toks kz (ovc_code_jcase c p op ae am njobs cpus lsrc rsrc toks kz) eq_refl);
      [exact I | | exact ovc_call_valid].
    destruct H as (Hwf & Hl & Hr & HtL & HtR & Hfm & Hvt & Hvop & Hvout & Hop & Hnum & Hid & HszL & HszR & Hn & Hkeys & Hnodup).
    exact (overlap_coefficient_join_rows_end_to_end_flat c p op ae am njobs cpus lsrc rsrc showp tokenize
             toks cf kz Hwf Hl Hr HtL HtR Hfm Hvt Hvop Hvout Hop Hnum Hid HszL HszR Hn).
  Qed.
End OvcCall.

(* ================================================================== overlap join *)
Section OvjCall.
  Variables (c : pcase) (T : Z) (op : string) (am : bool) (q njobs cpus : Z).
  Variables (lsrc rsrc : list (list pyval)) (showp : pyval).
  Variables (tokenize : pyval -> pyval).
  Variables (toks : pyval -> list Z) (cf : pyval -> pyval -> pyval) (kz : pyval -> Z).

  (* the hypotheses of C01_C02_code_overlap_join_tight about one call *)
  Definition ovj_call_hyps : Prop :=
    well_formed c /\
    (forall row, In row lsrc -> List.length row = List.length (p_lcols c) /\ ProjSpec.row_ok row) /\
    (forall row, In row rsrc -> List.length row = List.length (p_rcols c) /\ ProjSpec.row_ok row) /\
    (forall row, In row (lpresent c lsrc) -> tokenize (lcell c row) = pints (toks (lcell c row))) /\
    (forall row, In row (rpresent c rsrc) -> tokenize (rcell c row) = pints (toks (rcell c row))) /\
    is_exc (validate_output_attrs (py_opt_strs (p_lout c)) (py_strs (p_lcols c))
                                  (py_opt_strs (p_rout c)) (py_strs (p_rcols c))) = false /\
    comp_op_map op = Some cf /\
    ~ In "_id" (mv_header c) /\
    Z.of_nat (List.length (rpresent c rsrc)) < 2^31 /\
    is_exc (validate_threshold (PInt T) (PStr "OVERLAP")) = false /\
    is_exc (validate_comp_op_for_sim_measure (PStr op) (PStr "OVERLAP")) = false /\
    keys_unique c kz lsrc rsrc /\
    cells_sat c lsrc rsrc (fun v => NoDup (toks v)).

  Hypothesis H : ovj_call_hyps.

  Lemma ovj_call_valid : valid_join_case_weak (ovj_code_jcase c T op am q njobs cpus lsrc rsrc toks kz).
  Proof using H.
    destruct H as (Hwf & Hl & Hr & HtL & HtR & Hvout & Hop & Hid & Hn & Hvt & Hvop & Hkeys & Hnodup).
    split; [exact (lower_op_of_valid op "OVERLAP" eq_refl Hvop)|].
    exists "OVERLAP". split; [reflexivity|]. split.
    { right. left. split; [reflexivity|]. split; [reflexivity|].
      exists T. split; [reflexivity | exact (overlap_size_pos T Hvt)]. }
    apply (tables_ok_weak_of c lsrc rsrc toks kz (ovj_code_jcase c T op am q njobs cpus lsrc rsrc toks kz) eq_refl eq_refl _ Hkeys); [|exact Hn].
    destruct Hnodup as (HL & HR). split; intros row Hrow; (split; [auto | discriminate]).
  Qed.

  Theorem ovj_call_facts :
    call_facts c kz (ovj_code_jcase c T op am q njobs cpus lsrc rsrc toks kz)
               (ovj_call c (PInt T) op am njobs cpus lsrc rsrc showp tokenize) /\
    call_model c kz (ovj_code_jcase c T op am q njobs cpus lsrc rsrc toks kz)
               (ovj_call c (PInt T) op am njobs cpus lsrc rsrc showp tokenize).
  Proof using H.
    apply (code_call_facts c am lsrc rsrc toks kz (ovj_code_jcase c T op am q njobs cpus lsrc rsrc toks kz) eq_refl);
      [exact I | | exact ovj_call_valid].
    destruct H as (Hwf & Hl & Hr & HtL & HtR & Hvout & Hop & Hid & Hn & Hvt & Hvop & Hkeys & Hnodup).
    assert (Hnum : num_of (PInt T) <> None) by discriminate.
    exact (overlap_join_rows_end_to_end_flat c (PInt T) op false am q njobs cpus lsrc rsrc showp tokenize
             toks cf kz Hwf Hl Hr HtL HtR Hvout Hop Hnum Hid Hn Hvt Hvop).
  Qed.
End OvjCall.

(* ================================================================== the transposed call *)
(* the projection case of the call with the two tables (and everything attached to them) swapped *)
Definition swap_pcase (c : pcase) : pcase :=
  {| p_lcols := p_rcols c; p_rcols := p_lcols c; p_lkey := p_rkey c; p_rkey := p_lkey c;
     p_ljoin := p_rjoin c; p_rjoin := p_ljoin c; p_lout := p_rout c; p_rout := p_lout c;
     p_lpre := p_rpre c; p_rpre := p_lpre c; p_score := p_score c |}.

(* the model case of the swapped call IS MetaSpec.swap_case of the model case of the original call *)
Lemma jcd_jcase_swap c p op ae am njobs cpus lsrc rsrc toks kz :
  jcd_jcase (swap_pcase c) p op ae am njobs cpus rsrc lsrc toks kz
  = swap_case (jcd_jcase c p op ae am njobs cpus lsrc rsrc toks kz).
Proof. reflexivity. Qed.
Lemma ovc_jcase_swap c p op ae am njobs cpus lsrc rsrc toks kz :
  ovc_code_jcase (swap_pcase c) p op ae am njobs cpus rsrc lsrc toks kz
  = swap_case (ovc_code_jcase c p op ae am njobs cpus lsrc rsrc toks kz).
Proof. reflexivity. Qed.
Lemma ovj_jcase_swap c T op am q njobs cpus lsrc rsrc toks kz :
  ovj_code_jcase (swap_pcase c) T op am q njobs cpus rsrc lsrc toks kz
  = swap_case (ovj_code_jcase c T op am q njobs cpus lsrc rsrc toks kz).
Proof. reflexivity. Qed.

(* ================================================================== the laws, for frames returned by calls *)
(* C13 transposition *)
Theorem code_transpose_law c c' kz jc lhs lhs' :
  set_case jc = true -> j_with_score jc = true ->
  call_facts c kz jc lhs -> call_facts c' kz (swap_case jc) lhs' ->
  transpose_spec jc (code_view c kz lhs) (code_view c' kz lhs') = true.
Proof.
  intros Hset Hws (_ & _ & A1 & A2 & A3 & _ & _ & A6) (_ & _ & B1 & B2 & B3 & _ & _ & B6).
  apply transpose_law; assumption.
Qed.

(* C13 threshold refinement *)
Theorem code_refine_law c1 c2 kz jc1 jc2 lhs1 lhs2 :
  set_case jc1 = true -> same_but_t jc1 jc2 -> laxer_rows jc1 jc2 ->
  j_with_score jc1 = true -> j_with_score jc2 = true ->
  call_facts c1 kz jc1 lhs1 -> call_facts c2 kz jc2 lhs2 ->
  refine_spec jc1 jc2 (code_view c1 kz lhs1) (code_view c2 kz lhs2) = true.
Proof.
  intros Hset Hsb Hlax Hw1 Hw2 (_ & _ & A1 & A2 & A3 & _ & A5 & _) (_ & _ & B1 & B2 & B3 & _ & B5 & _).
  apply refine_law_rows; assumption.
Qed.

(* C13 operator partition *)
Theorem code_partition_nongray_law c1 c2 c3 kz cge cgt ceq lge lgt leq :
  set_case cge = true -> same_but_op cge cgt -> same_but_op cge ceq ->
  j_op cge = ">=" -> j_op cgt = ">" -> j_op ceq = "=" ->
  j_allow_missing cge = false -> j_allow_missing cgt = false -> j_allow_missing ceq = false ->
  j_with_score cge = true -> j_with_score cgt = true -> j_with_score ceq = true ->
  call_facts c1 kz cge lge -> call_facts c2 kz cgt lgt -> call_facts c3 kz ceq leq ->
  multiset_eqb (keep_rows [cge; cgt; ceq] (code_view c1 kz lge))
               (keep_rows [cge; cgt; ceq] (code_view c2 kz lgt) ++ keep_rows [cge; cgt; ceq] (code_view c3 kz leq)) = true.
Proof.
  intros Hset S1 S2 O1 O2 O3 M1 M2 M3 W1 W2 W3
         (_ & _ & A1 & A2 & A3 & _ & _ & A6) (_ & _ & B1 & B2 & B3 & _ & _ & B6) (_ & _ & C1 & C2 & C3 & _ & _ & C6).
  apply (partition_nongray cge cgt ceq); try assumption; repeat split; assumption.
Qed.

Theorem code_partition_exact_law c1 c2 c3 kz cge cgt ceq lge lgt leq :
  set_case cge = true -> no_gray_case cge = true -> same_but_op cge cgt -> same_but_op cge ceq ->
  j_op cge = ">=" -> j_op cgt = ">" -> j_op ceq = "=" ->
  j_allow_missing cge = false -> j_allow_missing cgt = false -> j_allow_missing ceq = false ->
  j_with_score cge = true -> j_with_score cgt = true -> j_with_score ceq = true ->
  call_facts c1 kz cge lge -> call_facts c2 kz cgt lgt -> call_facts c3 kz ceq leq ->
  partition_spec cge (code_view c1 kz lge) (code_view c2 kz lgt) (code_view c3 kz leq) = true.
Proof.
  intros Hset Hng S1 S2 O1 O2 O3 M1 M2 M3 W1 W2 W3
         (_ & _ & A1 & A2 & A3 & _ & _ & A6) (_ & _ & B1 & B2 & B3 & _ & _ & B6) (_ & _ & C1 & C2 & C3 & _ & _ & C6).
  apply (partition_law_exact cge cgt ceq); try assumption; repeat split; assumption.
Qed.

(* C10: two calls that differ in n_jobs / cpus / the order of the rows; with or without the score column *)
Lemma code_view_no_scores c kz lhs : p_score c = false -> no_scores (code_view c kz lhs).
Proof.
  intros Hns o Ho. unfold code_view in Ho. apply in_map_iff in Ho. destruct Ho as (r & <- & _).
  unfold kview. rewrite Hns. reflexivity.
Qed.

Theorem code_same_call_law c1 c2 kz jc jc' lhs1 lhs2 :
  same_call jc jc' -> j_with_score jc = p_score c1 -> p_score c2 = p_score c1 ->
  NoDup (map (@fst Z _) (j_L jc)) -> NoDup (map (@fst Z _) (j_R jc)) -> set_case jc = true ->
  call_facts c1 kz jc lhs1 -> call_facts c2 kz jc' lhs2 ->
  same_rows_nongray_spec jc (code_view c1 kz lhs1) (code_view c2 kz lhs2) = true /\
  (no_gray_case jc = true -> same_rows_spec jc (code_view c1 kz lhs1) (code_view c2 kz lhs2) = true).
Proof.
  intros Hsc Hjs Hps NL NR Hset (_ & _ & A1 & A2 & A3 & A4 & _ & A6) (_ & _ & B1 & B2 & B3 & B4 & _ & B6).
  destruct (p_score c1) eqn:Es.
  - apply (c10_law jc jc'); assumption.
  - destruct (specs_perm jc jc' (code_view c2 kz lhs2) Hsc NL NR) as [E1 [E2 [E3 E4]]].
    rewrite E1 in B1. rewrite E2 in B2. rewrite E3 in B3. rewrite E4 in B4.
    apply same_rows_noscore_law; try assumption.
    + apply code_view_no_scores. exact Es.
    + apply code_view_no_scores. exact Hps.
Qed.

Print Assumptions ovc_call_facts.
Print Assumptions ovj_call_facts.
Print Assumptions code_transpose_law.
Print Assumptions code_refine_law.
Print Assumptions code_partition_nongray_law.
Print Assumptions code_partition_exact_law.
Print Assumptions code_same_call_law.
